// C18 — BacktraceStorage: store / process / set_capacity on the real class (real std::vector machinery).
#include "vh.h"
#include "quill/backend/BacktraceStorage.h"
using namespace quill;
using namespace quill::detail;

#ifndef CAP
  #define CAP 2
#endif
#ifndef SZ
  #define SZ CAP
#endif
#ifndef NOPS
  #define NOPS 6
#endif

// ---- ghost model: ids stored since the previous flush, in order
static uint64_t g_model[NOPS + 8];
static uint32_t g_count, g_cap, g_pos;
static uint32_t g_flushes;

static void cb(TransitEvent const& te, std::string_view, std::string_view)
{
  // expected: the most recent min(cap, count) stored, oldest first, once each
  uint32_t n = g_count < g_cap ? g_count : g_cap;
  VASSERT(g_pos < n);
  if (g_pos < n) { VASSERT(te.timestamp == g_model[g_count - n + g_pos]); }
  vobs(te.timestamp);
  g_pos++;
}

// (bmc) any sequence of NOPS operations from the initial state, capacity CAP; optional re-initialisation
extern "C" void h_bt_bmc()
{
  BacktraceStorage s;
  uint32_t cap = CAP;
  s.set_capacity(cap);
  g_cap = cap; g_count = 0;
  uint64_t seq = 0;
  std::function<void(TransitEvent const&, std::string_view, std::string_view)> f = cb;
  for (int i = 0; i < NOPS; i++)
  {
    uint64_t op = vnd_range(0, 2);
    if (op == 0)
    {
      TransitEvent te; seq = vnd_u64(); te.timestamp = seq;   // symbolic id: order/identity decided by the solver
      s.store(std::move(te), "1", "t");
      g_model[g_count++] = seq;
    }
    else if (op == 1)
    {
      g_pos = 0;
      bool wrapped = g_count > g_cap;
      s.process(f);
      uint32_t n = g_count < g_cap ? g_count : g_cap;
      VASSERT(g_pos == n);          // exactly min(cap, stored) written
      VWITNESS(wrapped && g_flushes >= 1);   // a flush of a wrapped ring after an earlier flush
      g_flushes++;
      g_count = 0;                  // forgotten afterwards
    }
    else
    {
#ifdef REINIT
      uint32_t nc = static_cast<uint32_t>(vnd_range(1, CAP + 1));
      bool changed = nc != g_cap;
      s.set_capacity(nc);
      if (changed) { g_cap = nc; g_count = 0; }   // re-initialisation with another capacity empties the ring
#else
      VASSUME(false);
#endif
    }
  }
}

// (ind) one operation from an ARBITRARY ring state satisfying the representation invariant
//   INV: size <= cap, index < cap, size < cap => index == 0
static bool inv(BacktraceStorage& s)
{
  uint32_t sz = static_cast<uint32_t>(s._stored_events.size());
  return sz <= s._capacity && s._index < (s._capacity ? s._capacity : 1) && (sz == s._capacity || s._index == 0);
}

extern "C" void h_bt_ind()
{
  BacktraceStorage s;
  uint32_t cap = CAP;
  s.set_capacity(cap);
  uint32_t sz = SZ;   // concrete per query (no symbolic allocation size), 0..CAP
  // build the symbolic pre-state directly: sz elements with symbolic ids, symbolic index
  uint64_t ids[CAP + 1];
  for (uint32_t i = 0; i < CAP; i++)
  {
    if (i < sz)
    {
      TransitEvent te; ids[i] = vnd_u64(); te.timestamp = ids[i];
      s._stored_events.emplace_back(std::string{}, std::string{}, std::move(te));
    }
  }
  s._index = static_cast<uint32_t>(vnd_range(0, CAP - 1));
  VASSUME(inv(s));
  // logical sequence of the pre-state, oldest first
  uint32_t start = s._index;
  for (uint32_t i = 0; i < sz; i++) g_model[i] = ids[(start + i) % (sz ? sz : 1)];
  g_count = sz; g_cap = cap;
  std::function<void(TransitEvent const&, std::string_view, std::string_view)> f = cb;
  uint64_t op = vnd_range(0, 2);
  if (op == 0)
  {
    TransitEvent te; uint64_t id = vnd_u64(); te.timestamp = id;
    s.store(std::move(te), "1", "t");
    g_model[g_count++] = id;
    VASSERT(inv(s));
    // post-state logical sequence = last min(cap, count) of the ghost, checked by flushing it
    g_pos = 0; s.process(f);
    VASSERT(g_pos == (g_count < g_cap ? g_count : g_cap));
    VWITNESS(sz == CAP && start != 0);
  }
  else if (op == 1)
  {
    g_pos = 0; s.process(f);
    VASSERT(g_pos == (g_count < g_cap ? g_count : g_cap));
    VASSERT(s._stored_events.size() == 0);
    VASSERT(inv(s));               // the emptied ring must again be a valid ring (index reset)
  }
  else
  {
    uint32_t nc = static_cast<uint32_t>(vnd_range(0, CAP + 1));
    s.set_capacity(nc);
    VASSERT(inv(s));
    if (nc != cap) { VASSERT(s._stored_events.size() == 0); VASSERT(s._capacity == nc); }
    else { g_pos = 0; s.process(f); VASSERT(g_pos == g_count); }
  }
}
