#pragma clang attribute pop
