// C17 (registry part) — the real LoggerManager: create_or_get_logger / get_logger / remove_logger /
// cleanup_invalidated_loggers on a registry of real LoggerBase-derived objects.
#include "vh_nothrow.h"
#include "vh_noinline_quill.h"
#include "quill/core/LoggerManager.h"
#include "quill/core/LoggerBase.h"
#include "quill/sinks/Sink.h"
#include "vh_noinline_end.h"
using namespace quill;
using namespace quill::detail;

static uint32_t g_created, g_destroyed; static uint32_t g_destroyed_ids[4];
struct TLogger : LoggerBase
{
  TLogger(std::string n, std::vector<std::shared_ptr<Sink>> s, PatternFormatterOptions o, ClockSourceType c, UserClockSource* u)
    : LoggerBase(std::move(n), std::move(s), std::move(o), c, u), id(++g_created) {}
  ~TLogger() override {}
  uint32_t id;
};
// destruction is OBSERVED through an IR hook on the deleting destructor (the member-wise tear-down is not the subject)
extern "C" void vh_destroy(TLogger* l) { if (g_destroyed < 4) g_destroyed_ids[g_destroyed] = l->id; g_destroyed++; }
// logger objects come from a typed static pool (rt/vrt.c VLL_NEW_HOOK)
union TL { TLogger t; TL() {} ~TL() {} };
static TL g_pool0, g_pool1, g_pool2, g_pool3; static uint32_t g_pool_n;
extern "C" void* vh_new(uint64_t n)
{
  if (n != sizeof(TLogger) || g_pool_n >= 4) return nullptr;
  uint32_t k = g_pool_n++;
  return k == 0 ? static_cast<void*>(&g_pool0) : k == 1 ? static_cast<void*>(&g_pool1) : k == 2 ? static_cast<void*>(&g_pool2) : static_cast<void*>(&g_pool3);
}
extern "C" int vh_owns(void* p) { return p == &g_pool0 || p == &g_pool1 || p == &g_pool2 || p == &g_pool3; }
union MSlot { LoggerManager m; MSlot() {} ~MSlot() {} };
static MSlot g_m;
static char const* const NAMES[3] = {"a", "b", "c"};

static bool sorted_unique(LoggerManager& m)
{
  bool ok = true;
  for (size_t i = 1; i < 4; i++) if (i < m._loggers.size()) ok = ok && (m._loggers[i - 1]->get_logger_name() < m._loggers[i]->get_logger_name());
  return ok;
}

extern "C" void h_registry()
{
  LoggerManager& m = g_m.m;
  // static storage for the registry vector (concrete addresses; never reallocated within the bound)
  new (&m._loggers) std::vector<std::unique_ptr<LoggerBase>>();
  static LoggerBase* slots[6];
  m._loggers._M_impl._M_start = reinterpret_cast<std::unique_ptr<LoggerBase>*>(slots); m._loggers._M_impl._M_finish = m._loggers._M_impl._M_start;
  m._loggers._M_impl._M_end_of_storage = m._loggers._M_impl._M_start + 6;
  new (&m._env_log_level) std::unique_ptr<LogLevel>();
  new (&m._spinlock) Spinlock();
  *reinterpret_cast<bool*>(&m._has_invalidated_loggers) = false;
  PatternFormatterOptions opts{"%(message)", "%H", Timezone::GmtTime};
  uint64_t const i1 = I1, i2 = I2;        // names concrete per query (symbolic names make every string comparison and insert position symbolic: out of memory)
  std::string n1{NAMES[i1]}, n2{NAMES[i2]};
  // creating / looking up by name is idempotent
  LoggerBase* a = m.create_or_get_logger<TLogger>(n1, {}, opts, ClockSourceType::System, nullptr);
  LoggerBase* b = m.create_or_get_logger<TLogger>(n2, {}, opts, ClockSourceType::System, nullptr);
  LoggerBase* a2 = m.create_or_get_logger<TLogger>(n1, {}, opts, ClockSourceType::System, nullptr);
  VASSERT(a != nullptr && b != nullptr && a2 == a);
  VASSERT((a == b) == (i1 == i2));
  VASSERT(g_created == (i1 == i2 ? 1u : 2u));
  VASSERT(m._loggers.size() == g_created);
  VASSERT(sorted_unique(m));
  VASSERT(m.get_logger(n1) == a && m.get_logger(n2) == b);
  uint64_t const i3 = I3; std::string n3{NAMES[i3]};
  VASSERT((m.get_logger(n3) != nullptr) == (i3 == i1 || i3 == i2));
  // remove one of them: it disappears from look-ups at once, but is destroyed only by the backend clean-up, and only when
  // the backend reports that nothing queued or buffered refers to it any more
  bool rem_a = vnd_bool();
  LoggerBase* victim = rem_a ? a : b; uint32_t victim_id = static_cast<TLogger*>(victim)->id;
  m.remove_logger(victim);
  VASSERT(m.get_logger(rem_a ? n1 : n2) == nullptr);
  VASSERT(m.has_invalidated_loggers());
  VASSERT(g_destroyed == 0);
  bool queues_empty = vnd_bool();
  std::vector<std::string> removed = m.cleanup_invalidated_loggers([&] { return queues_empty; });
  if (!queues_empty)
  {
    VASSERT(g_destroyed == 0 && removed.empty());
    VASSERT(m.has_invalidated_loggers());                  // retried on a later pass
    VASSERT(m._loggers.size() == g_created);
  }
  else
  {
    VASSERT(g_destroyed == 1 && g_destroyed_ids[0] == victim_id);      // exactly the removed logger, never a valid one
    VASSERT(removed.size() == 1 && removed[0] == (rem_a ? n1 : n2));
    VASSERT(!m.has_invalidated_loggers());
    VASSERT(m._loggers.size() == g_created - 1);
    VASSERT(sorted_unique(m));
    // the other logger (if distinct) is untouched
    if (i1 != i2) VASSERT(m.get_logger(rem_a ? n2 : n1) == (rem_a ? b : a));
    // a logger of the same name can be created again: a NEW object
    LoggerBase* c = m.create_or_get_logger<TLogger>(rem_a ? n1 : n2, {}, opts, ClockSourceType::System, nullptr);
    VASSERT(c != nullptr && static_cast<TLogger*>(c)->id == g_created && c->is_valid_logger());
    VASSERT(sorted_unique(m));
  }
  VWITNESS(queues_empty && i1 != i2 && i1 > i2);
}
