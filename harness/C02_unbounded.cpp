// C02 — UnboundedSPSCQueue: growth / shrink / node switch / free / capacity cap, two threads under the
// release/acquire shim.  Real constructor, real Node and BoundedSPSCQueue code; only mmap/munmap are models.
#include "vh_nothrow.h"
#include "quill/core/UnboundedSPSCQueue.h"

#ifndef INIT
  #define INIT 2
#endif
#ifndef MAXC
  #define MAXC 8
#endif
#ifndef NSTEPS
  #define NSTEPS 6
#endif
#ifndef PRE
  #define PRE 0                      // producer steps executed before the symbolic schedule starts
#endif
#define MAXREC (NSTEPS + PRE + 2)
#ifndef MAXNODE
  #define MAXNODE 3                  // at most MAXNODE-1 grow/shrink events per run (stated bound)
#endif

using U = quill::detail::UnboundedSPSCQueue;
using Node = U::Node;

static U* g_u;
// nodes and the queue object itself live in typed static pools (no dynamic objects: see rt/m_queue_alloc.c)
union NodeSlot { Node n; NodeSlot() {} ~NodeSlot() {} };
// SEPARATE static objects (an array of structs indexed symbolically would be re-encoded as one huge bit-vector per write)
static NodeSlot g_pool0, g_pool1, g_pool2, g_pool3;
static uint32_t g_pool_used; static uint8_t g_pool_dead[4];
static Node* pool_at(uint32_t i) { return i == 0 ? &g_pool0.n : i == 1 ? &g_pool1.n : i == 2 ? &g_pool2.n : &g_pool3.n; }
union USlot { U u; USlot() {} ~USlot() {} };
static USlot g_uslot;
extern "C" void* vh_aligned_new(uint64_t n, uint64_t a)
{
  if (n == sizeof(U)) return &g_uslot.u;
  VASSERT(n == sizeof(Node));
  VASSUME(g_pool_used < MAXNODE);                 // stated bound on the number of nodes per run
  return pool_at(g_pool_used++);
}
extern "C" void vh_aligned_delete(void* p)
{
  for (uint32_t i = 0; i < MAXNODE; i++)
    if (p == pool_at(i))
    {
      VASSERT(!g_pool_dead[i]);                   // no double free
      g_pool_dead[i] = 1;
      vra_forget(p, sizeof(Node));                // its atomics are dead: any later atomic access is a violation
      // poison the non-atomic position fields so that any later use of the retired node is visible
      Node* nd = pool_at(i);
      nd->bounded_queue._writer_pos = 0xDDDDDDDDDDDDDDDDull; nd->bounded_queue._reader_pos = 0xDDDDDDDDDDDDDD00ull;
      *const_cast<std::byte**>(&nd->bounded_queue._storage) = nullptr;
    }
}
struct Rec { uint32_t len; uint8_t tag; uint8_t node; };
static Rec g_rec[MAXREC];
static uint32_t g_written, g_committed, g_read;
static Node* g_nodes[MAXNODE];           // nodes in creation order (ghost)
static uint32_t g_nnodes, g_cons_node;   // consumer is at node ordinal g_cons_node
static uint32_t g_switches, g_grows, g_shrinks;

#define NODE_OBJ(i) (MAXREC + (i))       // race-detector object ids: records first, then nodes

static void note_node(Node* n)
{
  for (uint32_t i = 0; i < MAXNODE; i++) if (i < g_nnodes && g_nodes[i] == n) return;
  VASSUME(g_nnodes < MAXNODE);
  g_nodes[g_nnodes++] = n;
  vra_register(&n->next, 64);
}
static uint32_t node_ord(Node* n)
{
  uint32_t r = MAXNODE;
  for (uint32_t i = 0; i < MAXNODE; i++) if (i < g_nnodes && g_nodes[i] == n) r = i;
  return r;
}
static size_t next_pow2(size_t c) { size_t r = 1; while (r < c) r <<= 1; return r; }

static void producer_step()
{
  U* u = g_u;
  vra_set_thread(0);
  Node* before = u->_producer;
  size_t cap_before = before->bounded_queue._capacity;
  uint64_t kind = vnd_range(0, 1);
  if (kind == 1)
  {
    // shrink request with any target
    size_t c = vnd_range(1, MAXC);
    vra_na_read(NODE_OBJ(node_ord(before)));
    u->shrink(c);
    Node* after = u->_producer;
    if (c > (cap_before >> 1)) { VASSERT(after == before); }
    else
    {
      VASSERT(after != before);
      VASSERT(after->bounded_queue._capacity == next_pow2(c));
      note_node(after); g_shrinks++;
      vra_na_read(NODE_OBJ(node_ord(after)));
    }
    return;
  }
  size_t n = vnd_range(1, MAXC + 1);
  // a record larger than the maximum capacity is rejected with an error (QUILL_THROW: fatal in this build)
  size_t w_before = before->bounded_queue._writer_pos;
  vll_fatal_ok = (n > MAXC);
  vra_na_read(NODE_OBJ(node_ord(before)));
  std::byte* p = u->prepare_write(n);
  vll_fatal_ok = 0;
  Node* after = u->_producer;
  // capacity the code has to ask for when the record does not fit the current node
  size_t need = cap_before * 2; while (need < n) need *= 2;
  if (!p)
  {
    // the reservation fails (caller blocks or drops) exactly when growing would exceed the maximum
    VASSERT(n <= MAXC);
    VASSERT(after == before);
    VASSERT(need > MAXC);
    VASSERT(before->bounded_queue._writer_pos == w_before);
    return;
  }
  VASSERT(n <= MAXC);
  if (after != before)
  {
    VASSERT(need <= MAXC);                                   // never allocates beyond the configured maximum
    VASSERT(after->bounded_queue._capacity == need);
    note_node(after); g_grows++;
    vra_na_read(NODE_OBJ(node_ord(after)));
  }
  VASSERT(after->bounded_queue._capacity <= MAXC);
  VASSUME(g_written < MAXREC);
  // contiguous inside the node's storage
  unsigned char* st = reinterpret_cast<unsigned char*>(after->bounded_queue._storage);
  size_t off = static_cast<size_t>(reinterpret_cast<unsigned char*>(p) - st);
  VASSERT(off == (after->bounded_queue._writer_pos & after->bounded_queue._mask));
  VASSERT(off + n <= 2 * after->bounded_queue._capacity);
  uint8_t tag = static_cast<uint8_t>(g_written + 1);
  vra_na_write(g_written);
  reinterpret_cast<unsigned char*>(p)[0] = static_cast<unsigned char>(n);
  if (n > 1) reinterpret_cast<unsigned char*>(p)[n - 1] = tag;
  g_rec[g_written].len = static_cast<uint32_t>(n); g_rec[g_written].tag = tag; g_rec[g_written].node = static_cast<uint8_t>(node_ord(after));
  g_written++;
  u->finish_write(n);
  u->commit_write();
  g_committed = g_written;
}

static void consumer_step()
{
  U* u = g_u;
  vra_set_thread(1);
  Node* before = u->_consumer;
  size_t cap_before = before->bounded_queue._capacity;
#ifdef SCMODE
  // the consumer-side emptiness predicate (used by the backend to decide that a thread's queue is drained, e.g. before
  // a dead thread's context is reclaimed): never true while a committed record is unread - also when the only unread
  // records live in a node the consumer has not switched to yet; "not empty" with nothing unread only while a node
  // switch is pending (an empty node published by shrink)
  bool const reported_empty = u->empty();
  if (reported_empty) VASSERT(g_read == g_committed);
  else VASSERT(g_read < g_committed || node_ord(before) + 1 < g_nnodes);
#endif
  U::ReadResult r = u->prepare_read();
  Node* after = u->_consumer;
  if (after != before)
  {
    // switched: the retired node is freed by the consumer; that must be ordered after the producer's last access
    uint32_t ob = node_ord(before);
    VASSERT(ob == g_cons_node);
    vra_na_write(NODE_OBJ(ob));
    VASSERT(node_ord(after) == g_cons_node + 1);             // nodes are visited in creation order
    g_cons_node++;
    g_switches++;
    VASSERT(r.allocation);
    VASSERT(r.previous_capacity == cap_before);
    VASSERT(r.new_capacity == after->bounded_queue._capacity);
    // the old buffer was finished first: every record written into it has been read
    for (uint32_t i = 0; i < MAXREC; i++) if (i < g_written && g_rec[i].node == ob) VASSERT(i < g_read);
  }
  else { VASSERT(!r.allocation); }
  if (!r.read_pos) return;
  VASSERT(g_read < g_committed);
  if (!(g_read < g_committed)) return;
  Rec const& rec = g_rec[g_read];
  VASSERT(rec.node == g_cons_node);
  vra_na_read(g_read);
  unsigned char* p = reinterpret_cast<unsigned char*>(r.read_pos);
  VASSERT(p[0] == rec.len);
  if (rec.len > 1) VASSERT(p[rec.len - 1] == rec.tag);
  vobs(rec.len); vobs(rec.tag);
  u->finish_read(rec.len);
  g_read++;
  if (vnd_range(0, 1)) u->commit_read();
}

extern "C" void h_unbounded_bmc()
{
  vra_loc_overflow_prunes = 1;          // stated bound: at most MAXNODE nodes (3 atomic locations each)
  g_u = new U(INIT, MAXC);
  VASSERT(g_u->_producer == g_u->_consumer);
  VASSERT(g_u->_producer->bounded_queue._capacity == INIT);
  note_node(g_u->_producer);
  vra_register(&g_u->_producer->bounded_queue._atomic_writer_pos, 64);
  vra_register(&g_u->_producer->bounded_queue._atomic_reader_pos, 64);
  for (int i = 0; i < PRE; i++) producer_step();
  for (int i = 0; i < NSTEPS; i++)
  {
    if (vnd_range(0, 1) == 0) producer_step(); else consumer_step();
  }
  VWITNESS(g_switches >= 1 && g_read >= 2 && g_grows >= 1);
#ifdef WITNESS_SHRINK
  VWITNESS(g_switches >= 1 && g_shrinks >= 1 && g_read >= 1);
#endif
#ifdef FINAL_DELETE
  // destructor frees every remaining node exactly once (CBMC double-free / deallocated-object checks)
  delete g_u;
#endif
}

