// C17 — the real LoggerManager::cleanup_invalidated_loggers / remove_logger on a registry of three real LoggerBase-derived
// objects, with the frontend running BETWEEN the backend's "is anything still queued?" checks: a frontend thread may log
// through a still valid logger and then remove it at any point of the clean-up pass.  A logger is destroyed only when it
// was removed AND nothing logged through it is still queued; a removal that cannot complete stays pending.
#include "vh_nothrow.h"
#include "vh_noinline_quill.h"
#include "quill/core/LoggerManager.h"
#include "quill/core/LoggerBase.h"
#include "quill/sinks/Sink.h"
#include "vh_noinline_end.h"
using namespace quill;
using namespace quill::detail;

#ifndef NL
  #define NL 3
#endif
#ifndef NENV
  #define NENV 2
#endif
struct TLogger : LoggerBase
{
  TLogger(std::string n, std::vector<std::shared_ptr<Sink>> s, PatternFormatterOptions o, ClockSourceType c, UserClockSource* u)
    : LoggerBase(std::move(n), std::move(s), std::move(o), c, u) {}
  ~TLogger() override {}
  uint32_t id{0};
};
union TL { TLogger t; TL() {} ~TL() {} };
static TL g_l0, g_l1, g_l2;
static TLogger* lg(uint32_t i) { return i == 0 ? &g_l0.t : (i == 1 || NL == 2) ? &g_l1.t : &g_l2.t; }
union MSlot { LoggerManager m; MSlot() {} ~MSlot() {} };
static MSlot g_m;

static uint8_t g_pending[NL];          // ghost: a statement logged through logger i is still queued / buffered
static uint8_t g_destroyed[NL]; static uint32_t g_ndestroyed, g_destroy_order[NL];
static uint32_t g_env_left;

// destruction observed through an IR hook on the deleting destructor
extern "C" void vh_destroy(TLogger* l)
{
  VASSERT(l->id < NL);
  VASSERT(!l->is_valid_logger());               // never a logger that was not removed
  VASSERT(g_pending[l->id] == 0);               // never while a statement logged through it is still queued
  VASSERT(!g_destroyed[l->id]);
  g_destroyed[l->id] = 1; if (g_ndestroyed < NL) g_destroy_order[g_ndestroyed] = l->id; g_ndestroyed++;
  vobs(l->id);
}

// std::vector<std::string>::_M_realloc_insert (growth of the returned name list) is replaced through an IR hook: typed static
// storage, one slot handed out per call (every push_back comes here), one-character names copied by hand
union RS { std::string s[NL + 1]; RS() {} ~RS() {} };
static RS g_rs;
extern "C" void vh_vs_insert(std::vector<std::string>* v, std::string* pos, std::string const* x)
{
  VASSERT(pos == v->_M_impl._M_finish);                                  // push_back: insertion at the end
  if (v->_M_impl._M_start == nullptr) { v->_M_impl._M_start = g_rs.s; v->_M_impl._M_finish = g_rs.s; }
  VASSERT(v->_M_impl._M_finish < g_rs.s + NL);
  VASSERT(x->size() == 1);
  std::string* d = v->_M_impl._M_finish;
  d->_M_dataplus._M_p = d->_M_local_buf; d->_M_local_buf[0] = (*x)[0]; d->_M_local_buf[1] = 0; d->_M_string_length = 1;
  v->_M_impl._M_finish = d + 1; v->_M_impl._M_end_of_storage = d + 1;
}

// the frontend: logs through a valid logger, and may then remove it (the documented order: a logger is not used after its removal)
static void frontend_step(LoggerManager& m)
{
  if (g_env_left == 0 || !vnd_bool()) return;
  g_env_left--;
  uint32_t j = static_cast<uint32_t>(vnd_range(0, NL - 1));
  TLogger* l = lg(j);
  if (g_destroyed[j] || !l->is_valid_logger()) return;
  g_pending[j] = 1;
  if (vnd_bool()) m.remove_logger(l);
}
static LoggerManager* g_mp;
static bool check_queues_empty()
{
  bool ans = true;
  for (uint32_t i = 0; i < NL; i++) if (g_pending[i]) ans = false;       // the backend looks at ALL queues and buffers
  vobs(ans);
  frontend_step(*g_mp);                                                   // ... and the frontend carries on afterwards
  return ans;
}

extern "C" void h_cleanup_loggers()
{
  LoggerManager& m = g_m.m; g_mp = &m;
  new (&m._loggers) std::vector<std::unique_ptr<LoggerBase>>();
  static LoggerBase* slots[NL + 1];
  m._loggers._M_impl._M_start = reinterpret_cast<std::unique_ptr<LoggerBase>*>(slots); m._loggers._M_impl._M_finish = m._loggers._M_impl._M_start + NL;
  m._loggers._M_impl._M_end_of_storage = m._loggers._M_impl._M_start + NL + 1;
  new (&m._env_log_level) std::unique_ptr<LogLevel>();
  new (&m._spinlock) Spinlock();
  *reinterpret_cast<bool*>(&m._has_invalidated_loggers) = false;
  static char const* const NAMES[3] = {"a", "b", "c"};
  bool any_invalid = false;
  for (uint32_t i = 0; i < NL; i++)
  {
    TLogger* l = new (lg(i)) TLogger(std::string{NAMES[i]}, {}, PatternFormatterOptions{"%(message)", "%H", Timezone::GmtTime}, ClockSourceType::System, nullptr);
    l->id = i; slots[i] = l;
    // the name, field by field (its length is then a constant for symbolic execution)
    l->logger_name._M_dataplus._M_p = l->logger_name._M_local_buf; l->logger_name._M_local_buf[0] = NAMES[i][0]; l->logger_name._M_local_buf[1] = 0; l->logger_name._M_string_length = 1;
    g_pending[i] = vnd_bool() ? 1 : 0;                       // statements logged earlier may still be queued
    if (vnd_bool()) { m.remove_logger(l); any_invalid = true; }      // real remove_logger: some loggers were removed before this pass
  }
  g_env_left = NENV;
  frontend_step(m);                                           // the frontend may also act before the pass starts
  std::vector<std::string> removed = m.cleanup_invalidated_loggers([] { return check_queues_empty(); });
  // what was destroyed is exactly what is reported, in registry order
  VASSERT(removed.size() == g_ndestroyed);
  for (uint32_t k = 0; k < NL; k++)
    if (k < g_ndestroyed && k < removed.size()) { VASSERT(removed[k].size() == 1 && removed[k][0] == NAMES[g_destroy_order[k]][0]); if (k) VASSERT(g_destroy_order[k - 1] < g_destroy_order[k]); }
  // the registry keeps every logger that was not destroyed, in order
  VASSERT(m._loggers.size() == NL - g_ndestroyed);
  uint32_t pos = 0; bool invalid_left = false;
  for (uint32_t i = 0; i < NL; i++)
    if (!g_destroyed[i])
    {
      if (pos < m._loggers.size()) VASSERT(m._loggers[pos].get() == lg(i));
      pos++;
      if (!lg(i)->is_valid_logger()) invalid_left = true;
    }
  // a removal that could not complete in this pass stays pending (it is retried on a later pass)
  if (invalid_left) VASSERT(m.has_invalidated_loggers());
  // with nothing queued anywhere and a quiet frontend, every removed logger is gone after one pass
  bool quiet = g_env_left == NENV;
  for (uint32_t i = 0; i < NL; i++) if (g_pending[i]) quiet = false;
  if (quiet) VASSERT(!invalid_left);
  VWITNESS(g_ndestroyed >= 1 && invalid_left && g_env_left == 0);
  // detach the static storage of the returned list (nothing to free)
  removed._M_impl._M_start = nullptr; removed._M_impl._M_finish = nullptr; removed._M_impl._M_end_of_storage = nullptr;
}
