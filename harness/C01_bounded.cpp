// C01 — BoundedSPSCQueueImpl<T>: the seven queue methods, two threads under the C++11 release/acquire shim.
// Also used by C09 (drained queue must grant a fitting reservation).
#include "vh.h"
#include "quill/core/BoundedSPSCQueue.h"
#include <new>

#ifndef POS_T
  #define POS_T uint8_t
#endif
#ifndef CAP
  #define CAP 4
#endif
#ifndef NSTEPS
  #define NSTEPS 5
#endif
#define MAXREC (NSTEPS + 4)

using POS = POS_T;
using QT = quill::detail::BoundedSPSCQueueImpl<POS>;

// ---- the queue object is laid out in raw memory and its state written directly (no constructor: mmap and
// pointer alignment arithmetic are environment, checked separately in h_ctor)
union QU { QT q; QU() {} ~QU() {} };   // typed storage without running the constructor
static QU g_qu;
static unsigned char g_storage[2 * CAP];
static QT* g_q;

struct Rec { POS pos; POS len; uint8_t tag; };
static Rec g_rec[MAXREC];
static uint32_t g_written, g_committed, g_read;   // ghost FIFO watermarks
static POS g_pub_reader;                          // latest reader position the consumer has published (ghost)
static POS g_start;
static uint32_t g_wrapped;

static QT* make_queue(POS w0, POS lag, POS stale, POS batch)
{
  QT* q = &g_qu.q;
  q->_last_flushed_writer_pos = 0; q->_last_flushed_reader_pos = 0;
  const_cast<quill::HugePagesPolicy&>(q->_huge_pages_policy) = quill::HugePagesPolicy::Never;
  const_cast<POS&>(q->_capacity) = CAP;
  const_cast<POS&>(q->_mask) = CAP - 1;
  const_cast<POS&>(q->_bytes_per_batch) = batch;
  *const_cast<std::byte**>(&q->_storage) = reinterpret_cast<std::byte*>(g_storage);
  // quiescent empty queue at position w0: reader == writer == w0; the published reader position lags by
  // `lag` (< batch) and the producer's cache of it is a further `stale` behind (any earlier published value)
  *reinterpret_cast<POS*>(&q->_atomic_writer_pos) = w0;
  q->_writer_pos = w0;
  q->_reader_pos = w0;
  q->_writer_pos_cache = w0;
  *reinterpret_cast<POS*>(&q->_atomic_reader_pos) = static_cast<POS>(w0 - lag);
  q->_reader_pos_cache = static_cast<POS>(w0 - lag - stale);
  g_pub_reader = static_cast<POS>(w0 - lag);
  g_start = w0;
  vra_register(&q->_atomic_writer_pos, sizeof(POS) * 8);
  vra_register(&q->_atomic_reader_pos, sizeof(POS) * 8);
  return q;
}

static uint32_t off_of(POS pos) { return static_cast<uint32_t>(pos & static_cast<POS>(CAP - 1)); }

static void producer_step()
{
  QT* q = g_q;
  vra_set_thread(0);
  uint64_t kind = vnd_range(0, 2);      // 0: write + commit, 1: write, commit later, 2: commit only
  if (kind == 2)
  {
    q->commit_write();
    g_committed = g_written;
    return;
  }
  POS n = static_cast<POS>(vnd_range(1, CAP));
  POS w = q->_writer_pos;
  std::byte* p = q->prepare_write(n);
  if (!p) return;
  VASSUME(g_written < MAXREC);
  // --- a reservation is granted only when the record fits in the space the consumer has released
  POS used = static_cast<POS>(w - g_pub_reader);
  VASSERT(used <= CAP);
  VASSERT(n <= static_cast<POS>(CAP - used));
  // --- contiguous, at the expected place
  uint32_t off = off_of(w);
  VASSERT(reinterpret_cast<unsigned char*>(p) == g_storage + off);
  VASSERT(off + n <= 2 * CAP);
  // --- overlaps no record the consumer has not finished reading (offset space)
  for (uint32_t i = 0; i < MAXREC; i++)
    if (i >= g_read && i < g_written)
    {
      uint32_t o = off_of(g_rec[i].pos);
      VASSERT(off + n <= o || o + g_rec[i].len <= off);
    }
  uint8_t tag = static_cast<uint8_t>(g_written + 1);
  // payload: length at the first byte, tag at the last byte (race-checked non-atomic accesses)
  vra_na_write(off); g_storage[off] = static_cast<unsigned char>(n);
  if (n > 1) { vra_na_write(off + n - 1); g_storage[off + n - 1] = tag; }
  g_rec[g_written].pos = w; g_rec[g_written].len = n; g_rec[g_written].tag = tag; g_written++;
  q->finish_write(n);
  if (static_cast<POS>(w + n) < w) g_wrapped++;
  if (kind == 0) { q->commit_write(); g_committed = g_written; }
}

// the consumer never publishes a position ahead of what it has finished reading
static void sync_pub(QT* q, POS before)
{
  POS after = static_cast<POS>(vra_load(&q->_atomic_reader_pos, sizeof(POS) * 8, 0));   // own location: latest
  VASSERT(after == before || after == q->_reader_pos);
  g_pub_reader = after;
}

static void consumer_step()
{
  QT* q = g_q;
  vra_set_thread(1);
  POS before = g_pub_reader;
  std::byte* p = q->prepare_read();
  if (!p) { sync_pub(q, before); return; }
  // --- never visible before its commit; none lost / duplicated / reordered
  VASSERT(g_read < g_committed);
  if (!(g_read < g_committed)) return;
  Rec const& r = g_rec[g_read];
  uint32_t off = off_of(r.pos);
  VASSERT(reinterpret_cast<unsigned char*>(p) == g_storage + off);
  vra_na_read(off);
  VASSERT(g_storage[off] == r.len);            // intact (not torn, not overwritten)
  if (r.len > 1) { vra_na_read(off + r.len - 1); VASSERT(g_storage[off + r.len - 1] == r.tag); }
  vobs(r.len); vobs(r.tag);
  sync_pub(q, before);                          // nothing may be published while the record is still being read
  VASSERT(g_pub_reader == before);
  q->finish_read(r.len);
  g_read++;
  if (vnd_range(0, 1)) q->commit_read();
  sync_pub(q, before);
}

extern "C" void h_spsc_bmc()
{
  POS w0;
#ifdef WRAPWIN
  // size_t positions: window around the integer wrap and around zero
  uint64_t d = vnd_range(0, 4 * CAP);
  w0 = vnd_range(0, 1) ? static_cast<POS>(0 - d) : static_cast<POS>(d);
#else
  w0 = static_cast<POS>(vnd_u64());      // every start position
#endif
  POS batch = static_cast<POS>(vnd_range(0, CAP));
  POS lag = static_cast<POS>(vnd_range(0, CAP));
  POS stale = static_cast<POS>(vnd_range(0, CAP));
  VASSUME(batch == 0 ? lag == 0 : lag < batch);
  VASSUME(static_cast<uint32_t>(lag) + stale <= CAP);
  g_q = make_queue(w0, lag, stale, batch);
  for (int i = 0; i < NSTEPS; i++)
  {
    if (vnd_range(0, 1) == 0) producer_step(); else consumer_step();
  }
  VWITNESS(g_read >= 2 && g_wrapped >= 1);
#ifdef WITNESS_STALE
  VWITNESS(g_read >= 1 && vra_stale_reads() >= 1);
#endif
}

// ---- constructor arithmetic (leaf): capacity is a power of two >= request, mask = capacity-1, batch <= capacity
extern "C" void h_ctor()
{
  POS req = static_cast<POS>(vnd_u64());
  POS pct = static_cast<POS>(vnd_range(0, 100));
#ifdef SMALLCAP
  VASSUME(req <= 64);
#endif
  QT* q = new (&g_qu.q) QT(req, quill::HugePagesPolicy::Never, pct);
  POS cap = q->_capacity;
  VASSERT(cap != 0 && (cap & (cap - 1)) == 0);
  VASSERT(q->_mask == static_cast<POS>(cap - 1));
  VASSERT(q->_bytes_per_batch <= cap);
  VASSERT(cap >= req || req > quill::detail::max_power_of_two<POS>());
  VASSERT(req == 0 || cap < static_cast<POS>(2 * req) || cap == 1);
  VASSERT(q->_writer_pos == 0 && q->_reader_pos == 0);
  VWITNESS(cap == 32 && q->_bytes_per_batch == 16);
}

// ---- C09: once the consumer has drained the queue (through the real read path, with the backend's commit
// policy: finish_read per record, one commit_read after the batch, then an idle poll that finds the queue
// empty) a reservation of ANY size up to the capacity must be granted.  Latest-value memory semantics
// (liveness premise: the producer eventually observes the consumer's last publication).
#ifndef NREC
  #define NREC 2
#endif
extern "C" void h_drained()
{
  POS w0;
#ifdef WRAPWIN
  uint64_t d = vnd_range(0, 4 * CAP);
  w0 = vnd_range(0, 1) ? static_cast<POS>(0 - d) : static_cast<POS>(d);
#else
  w0 = static_cast<POS>(vnd_u64());
#endif
  POS batch = static_cast<POS>(vnd_range(0, CAP));
  POS lag = static_cast<POS>(vnd_range(0, CAP));
  POS stale = static_cast<POS>(vnd_range(0, CAP));
#ifdef DRAINED_PUBLISHED
  VASSUME(lag == 0);                 // strengthened invariant of a drained+idle state (holds once the idle poll publishes)
#else
  VASSUME(batch == 0 ? lag == 0 : lag < batch);
#endif
  VASSUME(static_cast<uint32_t>(lag) + stale <= CAP);
  QT* q = make_queue(w0, lag, stale, batch);
  // history: up to NREC records written (any sizes that are granted) ...
  uint32_t nw = 0; POS total = 0;
  for (uint32_t i = 0; i < NREC; i++)
  {
    POS n = static_cast<POS>(vnd_range(0, CAP));
    if (n == 0) continue;
    std::byte* p = q->prepare_write(n);
    if (!p) continue;
    *reinterpret_cast<unsigned char*>(p) = static_cast<unsigned char>(n);
    q->finish_write(n); q->commit_write(); nw++; total = static_cast<POS>(total + n);
  }
  // ... all consumed by the backend's read loop
  uint32_t nr = 0; POS read = 0;
  for (uint32_t i = 0; i < NREC + 1; i++)
  {
    std::byte* p = q->prepare_read();
    if (!p) break;
    POS n = *reinterpret_cast<unsigned char*>(p);
    q->finish_read(n); nr++; read = static_cast<POS>(read + n);
  }
  if (nr != 0) q->commit_read();
  VASSERT(nr == nw && read == total);
  // idle poll: the backend looks again and finds nothing
  VASSERT(q->prepare_read() == nullptr);
  VASSERT(q->empty());
  // the drained state satisfies the invariant assumed above (so histories of any length are covered)
  POS pub = *reinterpret_cast<POS*>(&q->_atomic_reader_pos);
  POS newlag = static_cast<POS>(q->_reader_pos - pub);
#ifdef DRAINED_PUBLISHED
  VASSERT(newlag == 0);
#else
  VASSERT(batch == 0 ? newlag == 0 : newlag < batch);
#endif
  // now ANY fitting reservation must be granted
  POS n = static_cast<POS>(vnd_range(1, CAP));
  std::byte* p = q->prepare_write(n);
  VWITNESS(nr == NREC && n == CAP && p != nullptr && lag != 0);
  VASSERT(p != nullptr);
}
