// C03 / K2 — TransitEventBuffer: per-thread backend ring keeps FIFO order across wrap, expansion and shrink.
#include "vh_nothrow.h"
#include "quill/backend/TransitEventBuffer.h"
using namespace quill;
using namespace quill::detail;

#ifndef CAP
  #define CAP 2
#endif
#ifndef NOPS
  #define NOPS 6
#endif

static uint64_t g_ids[4 * CAP + NOPS + 2];
static uint32_t g_head, g_tail;      // ghost FIFO = g_ids[g_head .. g_tail)

static void drain_and_check(TransitEventBuffer& b)
{
  // the buffer must hold exactly the ghost sequence, in order
  VASSERT(b.size() == g_tail - g_head);
  VASSERT(b.empty() == (g_head == g_tail));          // empty() and size() agree (a full ring is not empty)
  for (uint32_t i = 0; i < 2 * CAP + 2; i++)
  {
    TransitEvent* f = b.front();
    VASSERT((f == nullptr) == b.empty());
    if (!f) break;
    VASSERT(g_head < g_tail);
    if (g_head < g_tail) VASSERT(f->timestamp == g_ids[g_head]);
    vobs(f->timestamp);
    g_head++;
    b.pop_front();
  }
  VASSERT(g_head == g_tail);
  VASSERT(b.empty());
}

// (ind) one operation from an arbitrary ring state: positions anywhere in the 64-bit space (wrap included),
// any fill level, symbolic contents
extern "C" void h_teb_ind()
{
  TransitEventBuffer b(CAP);
  uint64_t r = vnd_u64();
  uint64_t sz = vnd_range(0, CAP);
  b._reader_pos = r; b._writer_pos = r + sz;
  for (uint32_t i = 0; i < CAP; i++)
    if (i < sz) { uint64_t id = vnd_u64(); g_ids[g_tail++] = id; b._storage[(r + i) & b._mask].timestamp = id; }
  bool shrink_req = vnd_bool();
  b._shrink_requested = shrink_req;
  uint64_t op = vnd_range(0, 2);
  if (op == 0)
  {
    TransitEvent* e = b.back();            // expands when full
    VASSERT(e != nullptr);
    uint64_t id = vnd_u64(); e->timestamp = id; g_ids[g_tail++] = id;
    b.push_back();
    VASSERT(b.capacity() == (sz == CAP ? 2 * CAP : CAP));
    VWITNESS(sz == CAP && ((r + sz) < r));  // expansion of a full ring whose positions wrapped around 2^64
  }
  else if (op == 1)
  {
    TransitEvent* f = b.front();
    VASSERT((f == nullptr) == (sz == 0));
    if (f) { VASSERT(f->timestamp == g_ids[g_head]); g_head++; b.pop_front(); }
  }
  else
  {
    size_t cap_before = b.capacity();
    b.try_shrink();
    // shrinks only when requested AND empty; never loses content
    if (!(shrink_req && sz == 0)) { VASSERT(b.capacity() == cap_before); VASSERT(b._shrink_requested == shrink_req); }
    else { VASSERT(b.capacity() == b._initial_capacity || b.capacity() == cap_before); VASSERT(!b._shrink_requested); }
  }
  drain_and_check(b);
}

// (bmc) any sequence of NOPS operations from the initial state (initial capacity CAP)
extern "C" void h_teb_bmc()
{
  TransitEventBuffer b(CAP);
  uint32_t expansions = 0, shrinks = 0;
  for (int i = 0; i < NOPS; i++)
  {
    uint64_t op = vnd_range(0, 2);
    if (op == 0)
    {
      size_t cap_before = b.capacity();
      TransitEvent* e = b.back();
      uint64_t id = vnd_u64(); e->timestamp = id; g_ids[g_tail++] = id;
      b.push_back();
      if (b.capacity() != cap_before) expansions++;
    }
    else if (op == 1)
    {
      TransitEvent* f = b.front();
      VASSERT((f == nullptr) == (g_head == g_tail));
      if (f) { VASSERT(f->timestamp == g_ids[g_head]); g_head++; b.pop_front(); }
    }
    else
    {
      size_t cap_before = b.capacity();
      b.request_shrink();
      b.try_shrink();
      if (g_head != g_tail) VASSERT(b.capacity() == cap_before);
      else { VASSERT(b.capacity() == CAP); if (cap_before != CAP) shrinks++; }
    }
    VASSERT(b.size() == g_tail - g_head);
  }
  VWITNESS(expansions >= 1 && shrinks >= 1);
}

// (life cycle) the ring built by the REAL constructor from a requested capacity that need not be a power of two:
// fill past the capacity (expansion), drain, request a shrink, shrink, then fill and drain again.  Contents symbolic,
// control concrete.  "Shrinking loses nothing" (C20) and FIFO (C03) for every requested capacity, not only 2^k.
#ifndef ICAP
  #define ICAP 3
#endif
static void push_n(TransitEventBuffer& b, uint32_t n)
{
  for (uint32_t i = 0; i < n; i++)
  {
    TransitEvent* e = b.back();
    VASSERT(e != nullptr);
    uint64_t id = vnd_u64(); e->timestamp = id; g_ids[g_tail++] = id;
    b.push_back();
    VASSERT(b.size() == g_tail - g_head);
    VASSERT(b.capacity() >= b.size());
  }
}
static void pop_n(TransitEventBuffer& b, uint32_t n)
{
  for (uint32_t i = 0; i < n; i++)
  {
    TransitEvent* f = b.front();
    VASSERT(f != nullptr);
    if (!f) return;
    VASSERT(f->timestamp == g_ids[g_head]); vobs(f->timestamp);
    g_head++; b.pop_front();
  }
}
extern "C" void h_teb_life()
{
  TransitEventBuffer b(ICAP);
  size_t const c0 = b.capacity();
  VASSERT(c0 >= ICAP && c0 < 2 * ICAP);              // room for what was asked for, less than twice as much
  uint32_t const n0 = static_cast<uint32_t>(c0);
  push_n(b, n0 + 1);                                  // one more than fits: the ring grows, order kept
  VASSERT(b.capacity() > c0);
  pop_n(b, 1);
  push_n(b, 1);                                       // positions past the start of the grown ring
  pop_n(b, n0 + 1);
  VASSERT(b.empty());
  b.request_shrink(); b.try_shrink();
  VASSERT(b.capacity() == c0);                        // the shrink takes effect: back to the starting capacity
  push_n(b, n0);                                      // a full starting ring again (no slot aliasing) ...
  pop_n(b, 1);
  push_n(b, 2);                                       // ... and growth from the shrunk ring
  pop_n(b, n0 + 1);
  VASSERT(b.empty() && g_head == g_tail);
  VWITNESS(b.capacity() > c0);
}
