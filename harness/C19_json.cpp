// C19 — JSON sinks: the message template handed to the JSON line has every newline replaced by a space and is otherwise
// the original template (one single-line JSON object per statement).  REAL: detail::JsonSink<>::write_log.
// generate_json_message (libfmt rendering of the line) and StreamSink::write_log / constructor are IR hooks.
#include "vh_nothrow.h"
#include "vh_noinline_quill.h"
#include "quill/sinks/JsonSink.h"
// base stand-in; its constructor (which would run the StreamSink constructor: fs::path, FILE*) is replaced by an empty IR hook
struct TBase : quill::StreamSink { TBase(); };
TBase::TBase() : quill::StreamSink(quill::fs::path{}, nullptr) {}
#include "vh_noinline_end.h"
using namespace quill;
using namespace quill::detail;

#ifndef TLEN
  #define TLEN 4
#endif
using JS = JsonSink<TBase>;
union JSlot { JS j; JSlot() {} ~JSlot() {} };
static JSlot g_j;

static char g_seen[TLEN + 2]; static uint32_t g_seen_len; static uint32_t g_gen_calls, g_write_calls;
static uint64_t g_stmt_len;
// hooks (parameter lists as in the IR: the first string_view travels in two registers, the others by reference)
extern "C" void vh_gen_json(JS* self, MacroMetadata const*, uint64_t, uint64_t, char const*, std::string_view*, std::string const*, std::string_view*,
                            uint8_t, std::string_view*, std::string_view*, std::vector<std::pair<std::string, std::string>> const*, std::string_view*, std::string_view*, char const* message_format)
{
  g_gen_calls++;
  uint32_t n = 0;
  for (uint32_t i = 0; i < TLEN + 1; i++) { if (message_format[i] == 0) break; g_seen[i] = message_format[i]; n++; }
  g_seen_len = n;
  self->_json_message.push_back('{');
}
extern "C" void vh_stream_write(StreamSink*, MacroMetadata const*, uint64_t, uint64_t, char const*, std::string_view*, std::string const*, std::string_view*,
                                uint8_t, std::string_view*, std::string_view*, std::vector<std::pair<std::string, std::string>> const*, std::string_view*, std::string_view* stmt)
{
  g_write_calls++; g_stmt_len = stmt->size();
  // the statement handed down is the JSON text closed by "}\n"
  VASSERT(stmt->size() == 3 && (*stmt)[0] == '{' && (*stmt)[1] == '}' && (*stmt)[2] == '\n');
}
extern "C" void vh_tbase_ctor(TBase*) {}

static char g_tmpl[TLEN + 1];
extern "C" void h_json_newlines()
{
  uint32_t const n = TLEN;                 // concrete length per query (a symbolic terminator position makes every string copy symbolic in size)
  for (uint32_t i = 0; i < TLEN; i++) g_tmpl[i] = i < n ? (vnd_bool() ? '\n' : (vnd_bool() ? 'a' : ' ')) : 0;
  g_tmpl[TLEN] = 0;
  JS* j = new (&g_j.j) JS();
  static MacroMetadata md{"f.cpp:1", "fn", g_tmpl, nullptr, LogLevel::Info, MacroMetadata::Event::Log};
  std::string pid{"1"};
  j->write_log(&md, 5, "1", "t", pid, "lg", LogLevel::Info, "INFO", "I", nullptr, "m", "s");
  VASSERT(g_gen_calls == 1 && g_write_calls == 1);
  VASSERT(g_seen_len == n);
  for (uint32_t i = 0; i < TLEN; i++) if (i < n) { VASSERT(g_seen[i] == (g_tmpl[i] == '\n' ? ' ' : g_tmpl[i])); vobs(static_cast<uint64_t>(g_tmpl[i])); }
  VWITNESS(n == TLEN && g_tmpl[0] == '\n' && g_tmpl[TLEN - 1] == '\n');
}
