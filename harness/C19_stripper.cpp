// C19 — named arguments: the stripper BackendWorker::_process_named_args_format_message on every short valid template:
// the positional template keeps all text and every spec, drops exactly the names; the key list has one (name, spec) pair
// per placeholder, in order.  fmtquill::format("{}{{{}}}", text, spec) is replaced through an IR hook by a
// concatenation model (text + '{' + spec + '}'): libfmt rendering is outside the claim.
#include "vh_nothrow.h"
#include "vh_noinline_quill.h"
#include "quill/backend/BackendWorker.h"
#include "vh_noinline_end.h"
using namespace quill;
using namespace quill::detail;

#ifndef LEN
  #define LEN 6
#endif
static char const ALPHA[6] = {'{', '}', 'a', 'b', ':', '.'};

// hook: fmtquill::format("{}{{{}}}", a, b)
extern "C" void vh_fmt_concat(std::string* ret, char const* f, size_t fn, std::string_view* a, std::string_view* b)
{
  VASSERT(fn == 8 && f[0] == '{' && f[1] == '}' && f[2] == '{' && f[3] == '{' && f[4] == '{' && f[5] == '}' && f[6] == '}' && f[7] == '}');
  new (ret) std::string();
  ret->reserve(15);
  VASSERT(a->size() + b->size() + 2 <= 15);
  for (uint32_t i = 0; i < LEN; i++) if (i < a->size()) ret->push_back((*a)[i]);
  ret->push_back('{');
  for (uint32_t i = 0; i < LEN; i++) if (i < b->size()) ret->push_back((*b)[i]);
  ret->push_back('}');
}

// independent reference: grammar walk producing the expected positional template and the (name, spec) list
struct Key { uint32_t nb, ne, sb, se; };     // [nb,ne) name, [sb,se) spec including the leading ':' (empty when none)
static bool ref_strip(char const* s, uint32_t n, char* out, uint32_t* on, Key* keys, uint32_t* nk)
{
  uint32_t i = 0; *on = 0; *nk = 0;
  while (i < n)
  {
    char c = s[i];
    if (c == '{')
    {
      if (i + 1 < n && s[i + 1] == '{') { out[(*on)++] = '{'; out[(*on)++] = '{'; i += 2; continue; }
      uint32_t j = i + 1;
      if (!(j < n && (s[j] == 'a' || s[j] == 'b'))) return false;          // every field is named (documented use)
      while (j < n && (s[j] == 'a' || s[j] == 'b')) j++;
      Key k; k.nb = i + 1; k.ne = j; k.sb = j; k.se = j;
      if (j < n && s[j] == ':') { j++; while (j < n && s[j] != '}' && s[j] != '{') j++; k.se = j; }
      if (!(j < n && s[j] == '}')) return false;
      out[(*on)++] = '{';
      for (uint32_t t = k.sb; t < k.se; t++) out[(*on)++] = s[t];
      out[(*on)++] = '}';
      if (*nk >= 3) return false;
      keys[(*nk)++] = k;
      i = j + 1;
    }
    else if (c == '}')
    {
      if (i + 1 < n && s[i + 1] == '}') { out[(*on)++] = '}'; out[(*on)++] = '}'; i += 2; continue; }
      return false;
    }
    else { out[(*on)++] = c; i++; }
  }
  return *nk > 0;
}

extern "C" void h_stripper()
{
  char buf[LEN + 1];
  for (uint32_t i = 0; i < LEN; i++) buf[i] = ALPHA[vnd_range(0, 5)];
  buf[LEN] = 0;
  char exp[2 * LEN + 2]; uint32_t en = 0; Key keys[3]; uint32_t nk = 0;
  VASSUME(ref_strip(buf, LEN, exp, &en, keys, &nk));
  auto res = BackendWorker::_process_named_args_format_message(std::string_view{buf, LEN});
  for (uint32_t i = 0; i < LEN; i++) vobs(static_cast<uint64_t>(buf[i]));
  VASSERT(res.first.size() == en);
  for (uint32_t i = 0; i < LEN + 1; i++) if (i < en && i < res.first.size()) VASSERT(res.first[i] == exp[i]);
  VASSERT(res.second.size() == nk);
  for (uint32_t k = 0; k < 3; k++)
    if (k < nk && k < res.second.size())
    {
      std::string const& name = res.second[k].first; std::string const& spec = res.second[k].second;
      VASSERT(name.size() == keys[k].ne - keys[k].nb);
      VASSERT(spec.size() == keys[k].se - keys[k].sb);
      for (uint32_t t = 0; t < LEN; t++) if (t < name.size()) VASSERT(name[t] == buf[keys[k].nb + t]);
      for (uint32_t t = 0; t < LEN; t++) if (t < spec.size()) VASSERT(spec[t] == buf[keys[k].sb + t]);
    }
  VWITNESS(nk == 2);
}
