// C07 / C03 / C05 — the REAL BackendWorker::_exit() loop (drain at stop) and the REAL _poll() pass, with the kernels they
// call replaced, through IR hooks, by their CONTRACTS over an abstract state (the contracts are what K1 / K3 / K4 decide on
// the real kernels: props C03):
//   state   : NC thread contexts, each a fixed sequence of records with per-thread non-decreasing timestamps, split into
//             written | buffered (ring) | queued
//   populate: one global cut-off T per call (non-decreasing over calls, symbolic: "now - grace period"); each context moves,
//             in order, its queued records with timestamp <= T into its ring, up to the hard limit; returns the number buffered
//   lowest  : writes and pops the minimum-timestamp ring front over all contexts (false when all rings are empty)
//   empty   : no queued and no buffered record anywhere;   pending: some context has an empty ring and a non-empty queue
// Decided: _exit() with wait_for_queues_to_empty_before_exit writes EVERY record exactly once, in non-decreasing global
// timestamp order, then checks the failure counters and flushes the sinks, whatever the cut-offs do (records newer than
// the cut-off are held back for a bounded number of passes); _poll() never writes out of order and never loses a record.
#include "bk.h"
extern "C" uint32_t vh_fault(uint32_t) { return 0; }
#ifndef NC
  #define NC 2
#endif
#ifndef NR
  #define NR 2
#endif
#ifndef HARD
  #define HARD 2
#endif
#ifndef STALLS
  #define STALLS 2
#endif
static uint64_t g_ts[NC][NR]; static uint32_t g_n[NC], g_rd[NC], g_wr[NC];     // written [0,wr) buffered [wr,rd) queued [rd,n)
static uint64_t g_T; static uint32_t g_stalls;
static uint64_t g_out[NC * NR + 1]; static uint32_t g_nout; static uint32_t g_flushed_at = ~0u, g_counter_checked_at = ~0u;
static uint32_t g_passes;

extern "C" void vh_update_cache(BackendWorker*) {}
extern "C" bool vh_all_empty(BackendWorker*)
{
  for (uint32_t c = 0; c < NC; c++) if (g_wr[c] != g_n[c]) return false;
  return true;
}
extern "C" size_t vh_populate(BackendWorker*)
{
  VASSUME(g_passes < 8); g_passes++;
  // the cut-off only moves forward; after STALLS passes that moved nothing the clock has passed every record (fairness)
  uint64_t T = vnd_u64(); VASSUME(T >= g_T);
  bool moved = false; size_t buffered = 0;
  for (uint32_t c = 0; c < NC; c++) if (g_rd[c] < g_n[c] && g_ts[c][g_rd[c]] <= T && g_rd[c] - g_wr[c] < HARD) moved = true;
  if (!moved) { if (g_stalls >= STALLS) T = ~0ull; else g_stalls++; }
  g_T = T;
  for (uint32_t c = 0; c < NC; c++)
  {
    for (uint32_t k = 0; k < NR; k++) if (g_rd[c] < g_n[c] && g_ts[c][g_rd[c]] <= T && g_rd[c] - g_wr[c] < HARD) g_rd[c]++;
    buffered += g_rd[c] - g_wr[c];
  }
  return buffered;
}
extern "C" bool vh_has_pending(BackendWorker*)
{
  for (uint32_t c = 0; c < NC; c++) if (g_rd[c] == g_wr[c] && g_rd[c] < g_n[c]) return true;
  return false;
}
extern "C" bool vh_process_lowest(BackendWorker*)
{
  uint64_t best = ~0ull; int32_t who = -1;
  for (uint32_t c = 0; c < NC; c++) if (g_wr[c] < g_rd[c] && (who < 0 || g_ts[c][g_wr[c]] < best)) { best = g_ts[c][g_wr[c]]; who = static_cast<int32_t>(c); }
  if (who < 0) return false;
  VASSUME(g_nout < NC * NR + 1);
  g_out[g_nout++] = best; g_wr[who]++; vobs(best);
  return true;
}
extern "C" void vh_check_counter(BackendWorker*, std::function<void(std::string const&)> const&) { g_counter_checked_at = g_nout; }
extern "C" void vh_final_flush(BackendWorker*, bool, std::chrono::milliseconds) { g_flushed_at = g_nout; }
extern "C" void vh_cleanup_contexts(BackendWorker*) {}
extern "C" void vh_cleanup_loggers(BackendWorker*) {}

static uint32_t setup()
{
  new (&g_bw.b._options) BackendOptions();
  uint32_t total = 0;
  for (uint32_t c = 0; c < NC; c++)
  {
    g_n[c] = static_cast<uint32_t>(vnd_range(0, NR));
    uint64_t last = 0;
    for (uint32_t r = 0; r < NR; r++) { uint64_t t = vnd_range(0, 1u << 16); VASSUME(t >= last); last = t; g_ts[c][r] = t; }
    // any split into already buffered | still queued (nothing written yet); the ring never exceeds the hard limit
    g_rd[c] = static_cast<uint32_t>(vnd_range(0, g_n[c])); VASSUME(g_rd[c] <= HARD);
    g_wr[c] = 0;
    total += g_n[c];
  }
  return total;
}

extern "C" void h_exit_skeleton()
{
  uint32_t total = setup();
  bool wait = vnd_bool();
  g_bw.b._options.wait_for_queues_to_empty_before_exit = wait;
  bw()._exit();
  VASSERT(g_flushed_at != ~0u && g_counter_checked_at != ~0u);         // counters reported and sinks flushed before the thread ends
  VASSERT(g_flushed_at == g_nout);                                      // ... after the last statement was written
  if (wait)
  {
    VASSERT(g_nout == total);                                           // every completed statement is written ...
    for (uint32_t c = 0; c < NC; c++) VASSERT(g_wr[c] == g_n[c]);
  }
  for (uint32_t i = 1; i < NC * NR + 1; i++) if (i < g_nout) VASSERT(g_out[i] >= g_out[i - 1]);   // ... in global timestamp order
  VWITNESS(wait && total == NC * NR && g_stalls >= 1 && g_nout == total);
}

// ---- the REAL _poll() pass, repeated, with producers that keep logging between passes: a record enqueued after a pass
// whose cut-off was T is stamped later than T (that is what "enqueues respect the grace period" means, C05)
#ifndef PASSES
  #define PASSES 3
#endif
extern "C" void vh_resync(BackendWorker*) {}
extern "C" void vh_shrink(BackendWorker*) {}
extern "C" void h_poll_skeleton()
{
  uint32_t total = setup();
  for (uint32_t c = 0; c < NC; c++) VASSUME(g_rd[c] == 0);              // nothing buffered before the first pass
  g_bw.b._options.sleep_duration = std::chrono::nanoseconds{0}; g_bw.b._options.enable_yield_when_idle = false;
  g_bw.b._options.transit_events_soft_limit = static_cast<size_t>(vnd_range(1, 4));
  g_bw.b._options.sink_min_flush_interval = std::chrono::milliseconds{0};
  for (uint32_t p = 0; p < PASSES; p++)
  {
    bw()._poll();
    // producers: any context may append one record, stamped after its own last record and after the last cut-off
    for (uint32_t c = 0; c < NC; c++)
      if (g_n[c] < NR && vnd_bool())
      {
        uint64_t t = vnd_range(0, 1u << 16);
        VASSUME(g_T != ~0ull && t > g_T && (g_n[c] == 0 || t >= g_ts[c][g_n[c] - 1]));
        g_ts[c][g_n[c]] = t; g_n[c]++; total++;
      }
  }
  for (uint32_t i = 1; i < NC * NR + 1; i++) if (i < g_nout) VASSERT(g_out[i] >= g_out[i - 1]);   // never out of order
  // nothing is lost: whatever is not written yet is still buffered or queued
  uint32_t rest = 0; for (uint32_t c = 0; c < NC; c++) rest += g_n[c] - g_wr[c];
  VASSERT(g_nout + rest == total);
  VWITNESS(g_nout >= 2 && g_stalls >= 1);
}
