// C11 / C04 / C08 (call-site side) — the real LoggerImpl<FO>::log_statement, argument size computation, encoder and
// decoder (Codec<T>) on a real bounded queue.  Allocation and every libfmt entry point are FORBIDDEN on the caller's
// path (rt: vll_alloc_forbidden / irpass -f): the solver must show them unreachable.
#include "vh_nothrow.h"
#include "quill/Logger.h"
#include "quill/LogMacros.h"
#include "quill/core/Codec.h"
#include "quill/core/ThreadContextManager.h"
#include "quill/UserClockSource.h"
#include "quill/std/Vector.h"
#include "quill/std/Optional.h"
#include "quill/std/Pair.h"
#include "quill/std/Map.h"
using namespace quill;
using namespace quill::detail;

#ifndef QCAP
  #define QCAP 128
#endif
#ifndef QTYPE
  #define QTYPE BoundedDropping
#endif
#ifndef SLEN
  #define SLEN 5
#endif

struct FO
{
  static constexpr QueueType queue_type = QueueType::QTYPE;
  static constexpr size_t initial_queue_capacity = QCAP;
  static constexpr uint32_t blocking_queue_retry_interval_ns = 0;
  static constexpr size_t unbounded_queue_max_capacity = QCAP;
  static constexpr HugePagesPolicy huge_pages_policy = HugePagesPolicy::Never;
};
using L = LoggerImpl<FO>;
using BQ = BoundedSPSCQueue;

union LSlot { L l; LSlot() {} ~LSlot() {} };
union CSlot { ThreadContext c; CSlot() {} ~CSlot() {} };
static LSlot g_l; static CSlot g_c;
static unsigned char g_storage[2 * QCAP];
struct Clk : UserClockSource { uint64_t t; uint64_t now() const override { return t; } };
static Clk g_clk;

// logger + thread context + queue laid out directly (the constructors register with global managers, name threads,
// mmap ...: environment).  The queue starts at an arbitrary position with `used` bytes still unread.
static BQ* setup(uint64_t pos, uint64_t used)
{
  ThreadContext* tc = &g_c.c;
  BQ* q = &tc->_spsc_queue_union.bounded_spsc_queue;
  for (uint32_t i = 0; i < 2 * QCAP; i++) g_storage[i] = 0x5A;       // recycled queue memory: whatever earlier records left, never zeros
  const_cast<size_t&>(q->_capacity) = QCAP; const_cast<size_t&>(q->_mask) = QCAP - 1; const_cast<size_t&>(q->_bytes_per_batch) = QCAP / 20;
  *const_cast<std::byte**>(&q->_storage) = reinterpret_cast<std::byte*>(g_storage);
  *reinterpret_cast<size_t*>(&q->_atomic_writer_pos) = pos; q->_writer_pos = pos; q->_writer_pos_cache = pos;
  *reinterpret_cast<size_t*>(&q->_atomic_reader_pos) = pos - used; q->_reader_pos = pos - used; q->_reader_pos_cache = pos - used;
  tc->_queue_type = FO::queue_type;
  new (&tc->_conditional_arg_size_cache) SizeCacheVector();
  *reinterpret_cast<size_t*>(&tc->_failure_counter) = 0;
  L* l = &g_l.l;
  l->clock_source = ClockSourceType::User; l->user_clock = &g_clk;
  g_clk.t = vnd_u64();
  LoggerBase::thread_context = tc;
  return q;
}

static void sym_bytes(char* b, uint32_t n) { for (uint32_t i = 0; i < n; i++) b[i] = static_cast<char>(vnd_range(0, 255)); }

struct Hdr { uint64_t ts; MacroMetadata const* md; LoggerBase* lg; FormatArgsDecoder dec; };
static std::byte* read_header(BQ* q, Hdr* h)
{
  std::byte* r = q->prepare_read();
  VASSERT(r != nullptr);
  memcpy(h, r, sizeof(Hdr));
  return r + sizeof(Hdr);
}

enum E8 : uint8_t { E8_A = 3, E8_B = 250 };
inline auto format_as(E8 e) { return static_cast<uint8_t>(e); }   // libfmt formatter (backend side only)

// ---- (1) arithmetic / enum / pointer arguments: steady-state call, round trip bit for bit
extern "C" void h_log_arith()
{
  uint64_t pos = vnd_u64(); uint64_t used = vnd_range(0, QCAP);
  BQ* q = setup(pos, used);
  int8_t a = static_cast<int8_t>(vnd_u64()); uint16_t b = static_cast<uint16_t>(vnd_u64()); int32_t c = static_cast<int32_t>(vnd_u64());
  uint64_t d = vnd_u64(); uint64_t fbits = vnd_u64(); double f; memcpy(&f, &fbits, 8); uint32_t gbits = static_cast<uint32_t>(vnd_u64()); float g; memcpy(&g, &gbits, 4);
  bool h = vnd_bool(); char ch = static_cast<char>(vnd_u64()); E8 e = static_cast<E8>(vnd_range(0, 255)); void const* p = reinterpret_cast<void const*>(vnd_u64());
  static constexpr MacroMetadata md{"f.cpp:10", "fn", "{} {} {} {} {} {} {} {} {} {}", nullptr, LogLevel::Info, MacroMetadata::Event::Log};
  size_t const expect = 32 + 1 + 2 + 4 + 8 + 8 + 4 + 1 + 1 + 1 + 8;
  vll_alloc_forbidden = 1;
  bool ok = g_l.l.log_statement<false, false>(LogLevel::None, &md, a, b, c, d, f, g, h, ch, e, p);
  vll_alloc_forbidden = 0;
  // C08: the return value says exactly whether the record was committed; a rejected call leaves the queue untouched
  bool fits = expect <= QCAP - used;
  VASSERT(ok == fits);
  if (!ok) { VASSERT(q->_writer_pos == pos); VASSERT(q->_atomic_writer_pos.load() == pos); VASSERT(g_c.c._failure_counter.load() == 1); return; }
  VASSERT(q->_writer_pos == pos + expect);                   // bytes reserved == bytes written
  VASSERT(q->_atomic_writer_pos.load() == pos + expect);
  VASSERT(g_c.c._failure_counter.load() == 0);
  VASSUME(used == 0);                                        // read it back (decoder side) when it is the next record
  Hdr hd; std::byte* r = read_header(q, &hd); std::byte* r0 = r;
  VASSERT(hd.ts == g_clk.t); VASSERT(hd.md == &md); VASSERT(hd.lg == &g_l.l);
  VASSERT(Codec<int8_t>::decode_arg(r) == a); VASSERT(Codec<uint16_t>::decode_arg(r) == b); VASSERT(Codec<int32_t>::decode_arg(r) == c);
  VASSERT(Codec<uint64_t>::decode_arg(r) == d);
  double f2 = Codec<double>::decode_arg(r); VASSERT(memcmp(&f2, &f, 8) == 0);     // NaN payloads included
  float g2 = Codec<float>::decode_arg(r); VASSERT(memcmp(&g2, &g, 4) == 0);
  VASSERT(Codec<bool>::decode_arg(r) == h); VASSERT(Codec<char>::decode_arg(r) == ch); VASSERT(Codec<E8>::decode_arg(r) == e);
  VASSERT(Codec<void const*>::decode_arg(r) == p);
  VASSERT(static_cast<size_t>(r - r0) + 32 == expect);       // bytes consumed == bytes reserved
  VWITNESS(fbits == 0x7ff8000000000001ull && a < 0);
}

// ---- (2) C strings (null, empty, unterminated char array) sharing the size cache; strings and views with embedded NUL
extern "C" void h_log_strings()
{
  uint64_t pos = 24;                    // concrete queue position here (positions are covered by h_log_arith and C01): keeps the byte offsets concrete
  BQ* q = setup(pos, 0);
  char s1[SLEN + 1]; char s2[SLEN + 1]; char arr[4]; char sb[SLEN]; char vb[SLEN];
  sym_bytes(s1, SLEN); s1[SLEN] = 0; sym_bytes(s2, SLEN); s2[SLEN] = 0; sym_bytes(arr, 4); sym_bytes(sb, SLEN); sym_bytes(vb, SLEN);
  bool null1 = vnd_bool();
  char const* c1 = null1 ? nullptr : s1; char const* c2 = s2;
  uint32_t sl = static_cast<uint32_t>(vnd_range(0, SLEN)), vl = static_cast<uint32_t>(vnd_range(0, SLEN));
  std::string str(sb, sl); std::string_view sv(vb, vl);
  int32_t mid = static_cast<int32_t>(vnd_u64());
  static constexpr MacroMetadata md{"f.cpp:20", "fn", "{} {} {} {} {} {}", nullptr, LogLevel::Info, MacroMetadata::Event::Log};
  size_t l1 = null1 ? 0 : strnlen(s1, SLEN), l2 = strnlen(s2, SLEN), la = strnlen(arr, 4);
  size_t const expect = 32 + (l1 + 1) + 4 + (la + 1) + (4 + sl) + (l2 + 1) + (4 + vl);
  vll_alloc_forbidden = 1;
  bool ok = g_l.l.log_statement<false, false>(LogLevel::None, &md, c1, mid, arr, str, c2, sv);
  vll_alloc_forbidden = 0;
  VASSERT(ok);
  VASSERT(q->_writer_pos == pos + expect);
  // deep copy: scribble over the originals before decoding (ghost copy of the first one kept for the content check)
  char g1[SLEN + 1]; for (uint32_t i = 0; i <= SLEN; i++) g1[i] = s1[i];
  for (uint32_t i = 0; i < SLEN; i++) { s1[i] = 'X'; s2[i] = 'Y'; vb[i] = 'Z'; }
  Hdr hd; std::byte* r = read_header(q, &hd); std::byte* r0 = r;
  unsigned char* lo = g_storage; unsigned char* hi = g_storage + 2 * QCAP;
  char const* d1 = Codec<char const*>::decode_arg(r);
  VASSERT(reinterpret_cast<unsigned char const*>(d1) >= lo && reinterpret_cast<unsigned char const*>(d1) < hi);   // points into the queue, not at caller memory
  VASSERT(strlen(d1) == l1);
  for (uint32_t i = 0; i < SLEN; i++) if (i < l1) VASSERT(d1[i] == g1[i]);
  VASSERT(Codec<int32_t>::decode_arg(r) == mid);
  char const* da = Codec<char[4]>::decode_arg(r);
  VASSERT(strlen(da) == la);
  for (uint32_t i = 0; i < 4; i++) if (i < la) VASSERT(da[i] == arr[i]);
  std::string_view ds = Codec<std::string>::decode_arg(r);
  VASSERT(ds.size() == sl);
  VASSERT(reinterpret_cast<unsigned char const*>(ds.data()) >= lo && reinterpret_cast<unsigned char const*>(ds.data()) < hi);
  for (uint32_t i = 0; i < SLEN; i++) if (i < sl) VASSERT(ds[i] == sb[i]);          // embedded NUL bytes preserved
  char const* d2 = Codec<char const*>::decode_arg(r);
  VASSERT(strlen(d2) == l2);
  std::string_view dv = Codec<std::string_view>::decode_arg(r);
  VASSERT(dv.size() == vl);
  VASSERT(reinterpret_cast<unsigned char const*>(dv.data()) >= lo && reinterpret_cast<unsigned char const*>(dv.data()) < hi);
  VASSERT(static_cast<size_t>(r - r0) + 32 == expect);
  VWITNESS(null1 && la == 4 && sl == SLEN && sb[1] == 0 && l2 == 2);
}

// ---- (3) twelve variable-length C-string arguments: the size cache's inline capacity; the 13th allocates (witness)
#ifndef NSTR
  #define NSTR 12
#endif
extern "C" void h_log_cstr12()
{
  uint64_t pos = 8;
  BQ* q = setup(pos, 0);
  char s[3]; sym_bytes(s, 2); s[2] = 0;
  char const* c = s;
  static constexpr MacroMetadata md{"f.cpp:30", "fn", "{}{}{}{}{}{}{}{}{}{}{}{}{}", nullptr, LogLevel::Info, MacroMetadata::Event::Log};
  size_t ln = strnlen(s, 2) + 1;
  vll_alloc_forbidden = 1;
#if NSTR == 12
  bool ok = g_l.l.log_statement<false, false>(LogLevel::None, &md, c, c, c, c, c, c, c, c, c, c, c, c);
#else
  bool ok = g_l.l.log_statement<false, false>(LogLevel::None, &md, c, c, c, c, c, c, c, c, c, c, c, c, c);
#endif
  vll_alloc_forbidden = 0;
  VASSERT(ok);
  VASSERT(q->_writer_pos == pos + 32 + NSTR * ln);
  VWITNESS(ln == 3);
}

// ---- (4) dynamic level and the macro families expanded for real
extern "C" void h_log_macros()
{
  uint64_t pos = vnd_u64();
  BQ* q = setup(pos, 0);
  L* logger = &g_l.l;
  *reinterpret_cast<LogLevel*>(&logger->log_level) = LogLevel::TraceL3;
  int32_t v = static_cast<int32_t>(vnd_u64());
  LogLevel dl = static_cast<LogLevel>(vnd_range(0, 8));
  uint64_t which = vnd_range(0, 2);
  vll_alloc_forbidden = 1;
  if (which == 0) { QUILL_LOG_INFO(logger, "v {}", v); }
  else if (which == 1) { QUILL_LOG_DYNAMIC(logger, dl, "v {}", v); }
  else { QUILL_LOGV_WARNING(logger, "msg", v); }
  vll_alloc_forbidden = 0;
  size_t expect = 32 + 4 + (which == 1 ? 1 : 0);
  VASSERT(q->_writer_pos == pos + expect);
  Hdr hd; std::byte* r = read_header(q, &hd);
  VASSERT(Codec<int32_t>::decode_arg(r) == v);
  if (which == 1) { LogLevel got; memcpy(&got, r, 1); VASSERT(got == dl); VASSERT(hd.md->log_level() == LogLevel::Dynamic); }
  VWITNESS(which == 1 && dl == LogLevel::Error);
}

// ---- (5) standard containers: vector<std::string> with a heap-allocated (long) element, vector<int>, optional<int>,
// pair<int, std::string>: the containers are built BEFORE the steady-state call; the call itself must not allocate
extern "C" void h_log_containers()
{
  uint64_t pos = 16;
  BQ* q = setup(pos, 0);
  char lb[20]; sym_bytes(lb, 19); lb[19] = 0;
  for (uint32_t i = 0; i < 19; i++) if (lb[i] == 0) lb[i] = 'x';         // 19 chars: beyond the small-string buffer
  std::vector<std::string> vs; vs.reserve(2); vs.emplace_back(lb, 19); vs.emplace_back("ab");
  std::vector<int> vi; vi.reserve(2); vi.push_back(static_cast<int>(vnd_u64())); vi.push_back(static_cast<int>(vnd_u64()));
  std::optional<int> oi; if (vnd_bool()) oi = static_cast<int>(vnd_u64());
  std::pair<int, std::string> pr{static_cast<int>(vnd_u64()), std::string(lb, 17)};
  static constexpr MacroMetadata md{"f.cpp:40", "fn", "{} {} {} {}", nullptr, LogLevel::Info, MacroMetadata::Event::Log};
  size_t const expect = 32 + (8 + (4 + 19) + (4 + 2)) + (8 + 8) + (1 + (oi ? 4 : 0)) + (4 + 4 + 17);
  vll_alloc_forbidden = 1;
  bool ok = g_l.l.log_statement<false, false>(LogLevel::None, &md, vs, vi, oi, pr);
  vll_alloc_forbidden = 0;
  VASSERT(ok);
  VASSERT(q->_writer_pos == pos + expect);
  VWITNESS(oi.has_value());
}

// ---- (6) std::map<std::string, std::string> with long (heap) key and value, built beforehand
extern "C" void h_log_map()
{
  uint64_t pos = 16;
  BQ* q = setup(pos, 0);
  char lb[20]; sym_bytes(lb, 19); lb[19] = 0;
  for (uint32_t i = 0; i < 19; i++) if (lb[i] == 0) lb[i] = 'x';
  union MS { std::map<std::string, std::string> m; MS() {} ~MS() {} };     // never destroyed (recursive tree erase is not the subject)
  static MS ms; new (&ms.m) std::map<std::string, std::string>();
  std::map<std::string, std::string>& m = ms.m;
  m.emplace(std::string(lb, 17), std::string(lb, 19));
  static constexpr MacroMetadata md{"f.cpp:50", "fn", "{}", nullptr, LogLevel::Info, MacroMetadata::Event::Log};
  size_t const expect = 32 + 8 + (4 + 17) + (4 + 19);
  vll_alloc_forbidden = 1;
  bool ok = g_l.l.log_statement<false, false>(LogLevel::None, &md, m);
  vll_alloc_forbidden = 0;
  VASSERT(ok);
  VASSERT(q->_writer_pos == pos + expect);
}
