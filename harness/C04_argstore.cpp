// C04 — "after the configured non-printable-character sanitisation": the backend runs the sanitiser only when the decoded
// argument store says some argument can carry arbitrary characters.  REAL: DynamicFormatArgStore::push_back / clear.
// For every argument type that can carry a non-printable character (char, C string, string views) the flag must be
// raised, alone or next to numeric arguments.
#include "vh_nothrow.h"
#include "vh_noinline_quill.h"
#include "quill/core/DynamicFormatArgStore.h"
#include "vh_noinline_end.h"
using namespace quill;

union SSlot { DynamicFormatArgStore s; SSlot() {} ~SSlot() {} };
static SSlot g_s;
static fmtquill::basic_format_arg<fmtquill::format_context> g_args[8];

extern "C" void h_argstore_flag()
{
  DynamicFormatArgStore* s = new (&g_s.s) DynamicFormatArgStore();
  // typed static storage for the argument vector (never reallocated within the bound)
  s->_data._M_impl._M_start = g_args; s->_data._M_impl._M_finish = g_args; s->_data._M_impl._M_end_of_storage = g_args + 8;
  uint32_t which = static_cast<uint32_t>(vnd_range(0, 3));      // std::string arguments are stored in heap nodes with virtual destructors: not run here
  bool numeric_first = vnd_bool(), numeric_after = vnd_bool();
  if (numeric_first) { s->push_back(static_cast<int>(vnd_u32())); s->push_back(static_cast<double>(vnd_u32())); }
  char c = static_cast<char>(vnd_u8());
  char cs[3] = {c, 'x', 0};
  if (which == 0) s->push_back(c);                                     // a lone char
  else if (which == 1) s->push_back(static_cast<char const*>(cs));
  else if (which == 2) s->push_back(std::string_view{cs, 2});
  else s->push_back(fmtquill::string_view{cs, 2});
  if (numeric_after) { s->push_back(static_cast<uint64_t>(vnd_u32())); s->push_back(vnd_bool()); }
  VASSERT(s->has_string_related_type());                             // the sanitiser will look at this statement
  VASSERT(s->size() == 1 + (numeric_first ? 2 : 0) + (numeric_after ? 2 : 0));
  vobs(which); vobs(static_cast<uint8_t>(c));
  VWITNESS(which == 0 && numeric_first && numeric_after);
  // detach the static storage before the harness ends (nothing to free)
  s->_data._M_impl._M_start = nullptr; s->_data._M_impl._M_finish = nullptr; s->_data._M_impl._M_end_of_storage = nullptr;
}
