// Harness-side interface (C++).  Harnesses include the REAL quill headers, construct the state directly
// (-fno-access-control), call the real member functions and state the property with VASSERT.
#pragma once
#include "../rt/vll_rt.h"
#define VASSERT(c) vassert_at((c) ? 1 : 0, __LINE__)
#define VWITNESS(c) vwitness_at((c) ? 1 : 0, __LINE__)
#define VASSUME(c) vassume((c) ? 1 : 0)
static inline uint8_t vnd_u8() { return static_cast<uint8_t>(vnd_range(0, 255)); }
static inline uint32_t vnd_u32() { return static_cast<uint32_t>(vnd_range(0, 0xffffffffull)); }
static inline bool vnd_bool() { return vnd_range(0, 1) != 0; }
