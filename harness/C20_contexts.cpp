// C20 — exited threads are reclaimed: the invalid-context counter that gates the backend's clean-up.
#include "vh_nothrow.h"
#include "vh_noinline_quill.h"
#include "quill/core/ThreadContextManager.h"
#include "vh_noinline_end.h"
using namespace quill;
using namespace quill::detail;

union MgrSlot { ThreadContextManager m; MgrSlot() {} ~MgrSlot() {} };
static MgrSlot g_mgr;

// (ind) the manager holds N exited-but-not-yet-reclaimed contexts (N symbolic, 16 bits: "hundreds of threads
// between two backend idle periods"); the real counter holds what N real increments left in it.
// One more thread exits (real add_invalid_thread_context).  The clean-up gate must be open iff contexts are pending.
extern "C" void h_counter_add()
{
  ThreadContextManager& m = g_mgr.m;
  using CT = decltype(m._invalid_thread_context_count.load());
  uint64_t N = vnd_range(0, 65534);
  *reinterpret_cast<CT*>(&m._invalid_thread_context_count) = static_cast<CT>(N);   // value after N fetch_add(1) from 0
  VASSERT(m.has_invalid_thread_context() == (N != 0) || N >= 256);                // pre-state as the code leaves it
  m.add_invalid_thread_context();
  uint64_t pending = N + 1;
  VWITNESS(pending == 300);
  // gate of BackendWorker::_cleanup_invalidated_thread_contexts
  VASSERT(m.has_invalid_thread_context() == (pending != 0));
}

// (ind) removal side: N >= 1 pending, one context (invalid, in the registry) is reclaimed by the real
// remove_shared_invalidated_thread_context; the gate stays open iff something is still pending.
union CtxSlot { ThreadContext c; CtxSlot() {} ~CtxSlot() {} };
static CtxSlot g_ctx;
static void nodel(ThreadContext*) {}
extern "C" void h_counter_remove()
{
  ThreadContextManager& m = g_mgr.m;
  new (&m._thread_contexts) std::vector<std::shared_ptr<ThreadContext>>();
  new (&m._spinlock) Spinlock();
  using CT = decltype(m._invalid_thread_context_count.load());
  uint64_t N = vnd_range(1, 65535);
  *reinterpret_cast<CT*>(&m._invalid_thread_context_count) = static_cast<CT>(N);
  ThreadContext* tc = &g_ctx.c;
  *reinterpret_cast<bool*>(&tc->_valid) = false;
  m._thread_contexts.push_back(std::shared_ptr<ThreadContext>(tc, nodel));
  m.remove_shared_invalidated_thread_context(tc);
  VASSERT(m._thread_contexts.empty());
  uint64_t pending = N - 1;
  VWITNESS(pending == 256);
  VASSERT(m.has_invalid_thread_context() == (pending != 0));
}

// (race) thread exits (add_invalid_thread_context, "thread" 0) interleaved with backend reclaims
// (remove_shared_invalidated_thread_context, "thread" 1) under the release/acquire shim: the counter must end up equal to
// the number of pending contexts whatever value a non-RMW load of it may legally return
static CtxSlot g_cx0, g_cx1;
extern "C" void h_counter_race()
{
  ThreadContextManager& m = g_mgr.m;
  new (&m._thread_contexts) std::vector<std::shared_ptr<ThreadContext>>(); m._thread_contexts.reserve(4);
  new (&m._spinlock) Spinlock();
  using CT = decltype(m._invalid_thread_context_count.load());
  ThreadContext* c0 = &g_cx0.c; ThreadContext* c1 = &g_cx1.c;
  *reinterpret_cast<bool*>(&c0->_valid) = false; *reinterpret_cast<bool*>(&c1->_valid) = false;
  m._thread_contexts.push_back(std::shared_ptr<ThreadContext>(c0, nodel));
  m._thread_contexts.push_back(std::shared_ptr<ThreadContext>(c1, nodel));
  *reinterpret_cast<CT*>(&m._invalid_thread_context_count) = 2;       // two exited threads already counted
  vra_register(&m._invalid_thread_context_count, sizeof(CT) * 8);
  vra_register(&m._spinlock, 8);
  uint32_t added = 0, removed = 0;
  for (int i = 0; i < 4; i++)
  {
    if (vnd_range(0, 1) == 0) { vra_set_thread(0); m.add_invalid_thread_context(); added++; }
    else if (removed < 2) { vra_set_thread(1); m.remove_shared_invalidated_thread_context(removed == 0 ? c0 : c1); removed++; }
  }
  vra_set_thread(1);
  uint64_t now = vra_rmw(&m._invalid_thread_context_count, 1, 0, sizeof(CT) * 8, 0);      // latest value
  VASSERT(now == 2 + added - removed);
  VWITNESS(added == 2 && removed == 2 && vra_stale_reads() == 0);
}
