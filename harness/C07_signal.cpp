// C07 (decision logic only) — the real detail::on_signal<FrontendOptions> as one step of a state machine: which effects
// (notice logged, flush, alarm, exit / default disposition + re-raise, parking of a second entry) happen, in which order,
// for every handled signal, caller and configuration.  The OS side (delivery, wait status, atexit, join) is not encodable.
#include "vh_nothrow.h"
#include "vh_noinline_quill.h"
#include "quill/backend/SignalHandler.h"
#include "quill/Logger.h"
#include "vh_noinline_end.h"
#include <csignal>
using namespace quill;
using namespace quill::detail;

struct FO
{
  static constexpr QueueType queue_type = QueueType::UnboundedBlocking;
  static constexpr size_t initial_queue_capacity = 1024;
  static constexpr uint32_t blocking_queue_retry_interval_ns = 0;
  static constexpr size_t unbounded_queue_max_capacity = 4096;
  static constexpr HugePagesPolicy huge_pages_policy = HugePagesPolicy::Never;
};
using L = LoggerImpl<FO>;
union LSlot { L l; LSlot() {} ~LSlot() {} };
static LSlot g_l;

enum { E_EXIT = 1, E_SIGNAL_DFL = 2, E_RAISE = 3, E_ALARM = 4, E_PAUSE = 5, E_SLEEP = 6, E_LOG = 7, E_FLUSH = 8 };
struct Eff { uint32_t kind; int64_t arg; };
static Eff g_eff[12]; static uint32_t g_neff;
static uint32_t g_tid, g_backend_tid; static bool g_have_logger, g_reraise; static int32_t g_sig; static uint32_t g_timeout, g_lock0;

static int find(uint32_t kind) { int r = -1; for (uint32_t i = 0; i < 12; i++) if (i < g_neff && g_eff[i].kind == kind && r < 0) r = static_cast<int>(i); return r; }
static uint32_t count(uint32_t kind) { uint32_t n = 0; for (uint32_t i = 0; i < 12; i++) if (i < g_neff && g_eff[i].kind == kind) n++; return n; }

// judgement at a TERMINAL effect (exit / raise / pause) and at normal return
static void judge(bool returned)
{
  bool on_backend = g_backend_tid == 0 || g_tid == g_backend_tid;
  bool term = g_sig == SIGINT || g_sig == SIGTERM;
  if (g_lock0 != 0)
  {
    // a second, concurrent entry parks: it must not log, flush, exit or re-raise
    VASSERT(count(E_LOG) == 0 && count(E_FLUSH) == 0 && count(E_EXIT) == 0 && count(E_RAISE) == 0 && count(E_ALARM) == 0);
    VASSERT(!returned);
    return;
  }
  VASSERT(count(E_ALARM) == 1 && g_eff[find(E_ALARM)].arg == g_timeout);        // the watchdog alarm is armed with the configured timeout
  bool can_log = !on_backend && g_have_logger;
  if (can_log)
  {
    // the notice is logged, then flushed, BEFORE the process is allowed to end
    VASSERT(count(E_LOG) == ((term || !g_reraise) ? 1u : 2u));
    VASSERT(count(E_FLUSH) == 1);
    VASSERT(find(E_LOG) < find(E_FLUSH));
    for (uint32_t i = 0; i < 12; i++) if (i < g_neff && g_eff[i].kind == E_LOG) VASSERT(static_cast<int>(i) < find(E_FLUSH));
    if (find(E_EXIT) >= 0) VASSERT(find(E_FLUSH) < find(E_EXIT));
    if (find(E_RAISE) >= 0) VASSERT(find(E_FLUSH) < find(E_RAISE));
  }
  else { VASSERT(count(E_LOG) == 0 && count(E_FLUSH) == 0); }
  if (term && (on_backend || g_have_logger))
  {
    // SIGINT / SIGTERM: exits successfully
    VASSERT(count(E_EXIT) == 1 && g_eff[find(E_EXIT)].arg == 0 && count(E_RAISE) == 0 && !returned);
  }
  else if (!term && g_reraise && (on_backend || g_have_logger))
  {
    // other signals: default disposition restored, then the ORIGINAL signal re-raised (the process dies from it)
    VASSERT(count(E_EXIT) == 0);
    VASSERT(count(E_SIGNAL_DFL) == 1 && g_eff[find(E_SIGNAL_DFL)].arg == g_sig);
    VASSERT(count(E_RAISE) == 1 && g_eff[find(E_RAISE)].arg == g_sig);
    VASSERT(find(E_SIGNAL_DFL) < find(E_RAISE));
    VASSERT(!returned);
  }
  else { VASSERT(returned); VASSERT(count(E_EXIT) == 0 && count(E_RAISE) == 0); }
}

static bool g_alarm_mode; static int32_t g_first_sig;
static void judge_alarm()
{
  // the watchdog re-raises the ORIGINAL signal (or SIGALRM itself when it is the first one) with the default disposition
  int32_t expect = g_first_sig != 0 ? g_first_sig : SIGALRM;
  VASSERT(count(E_SIGNAL_DFL) == 1 && g_eff[find(E_SIGNAL_DFL)].arg == expect);
  VASSERT(count(E_RAISE) == 1 && g_eff[find(E_RAISE)].arg == expect);
  VASSERT(find(E_SIGNAL_DFL) < find(E_RAISE));
  VASSERT(count(E_EXIT) == 0 && count(E_LOG) == 0 && count(E_FLUSH) == 0);
  VWITNESS(g_first_sig == SIGSEGV);
}
extern "C" void vh_effect(uint32_t kind, int64_t arg)
{
  VASSUME(g_neff < 12);
  g_eff[g_neff].kind = kind; g_eff[g_neff].arg = arg; g_neff++; vobs(kind); vobs(static_cast<uint64_t>(arg));
  if (kind == E_EXIT || kind == E_RAISE || kind == E_PAUSE) { if (g_alarm_mode) judge_alarm(); else judge(false); }
}
extern "C" uint32_t vh_tid() { return g_tid; }
// hooks (irpass -r): logger lookup, the two notices, flush
extern "C" LoggerBase* vh_get_logger() { return g_have_logger ? &g_l.l : nullptr; }
extern "C" bool vh_log_stmt(L* self, LogLevel, MacroMetadata const* md, char const* const&, int& signum)
{
  VASSERT(self == &g_l.l); VASSERT(signum == g_sig);
  vh_effect(E_LOG, static_cast<int64_t>(md->log_level())); return true;
}
extern "C" void vh_flush_log(L* self, uint32_t sleep_ns) { VASSERT(self == &g_l.l); vh_effect(E_FLUSH, sleep_ns); }

extern "C" void h_on_signal()
{
  static int const sigs[6] = {SIGTERM, SIGINT, SIGABRT, SIGFPE, SIGILL, SIGSEGV};
  g_sig = sigs[vnd_range(0, 5)];
  g_tid = static_cast<uint32_t>(vnd_range(1, 3)); g_backend_tid = static_cast<uint32_t>(vnd_range(0, 3));   // 0 = backend not started
  g_have_logger = vnd_bool(); g_reraise = vnd_bool();
  g_timeout = static_cast<uint32_t>(vnd_range(1, 100));
  g_lock0 = static_cast<uint32_t>(vnd_range(0, 1));                                                        // another entry already inside?
  SignalHandlerContext& ctx = SignalHandlerContext::instance();
  *reinterpret_cast<uint32_t*>(&ctx.lock) = g_lock0;
  *reinterpret_cast<uint32_t*>(&ctx.backend_thread_id) = g_backend_tid;
  *reinterpret_cast<uint32_t*>(&ctx.signal_handler_timeout_seconds) = g_timeout;
  *reinterpret_cast<bool*>(&ctx.should_reraise_signal) = g_reraise;
  *reinterpret_cast<LogLevel*>(&g_l.l.log_level) = LogLevel::TraceL3;
  on_signal<FO>(g_sig);
  judge(true);
  VASSERT(ctx.signal_number.load() == g_sig);
  VWITNESS(true);
}

// the watchdog: if the handler does not finish within the timeout, SIGALRM arrives and the process still dies from the
// original signal
extern "C" void h_on_alarm()
{
  static int const sigs[7] = {0, SIGTERM, SIGINT, SIGABRT, SIGFPE, SIGILL, SIGSEGV};
  g_alarm_mode = true;
  g_first_sig = sigs[vnd_range(0, 6)];
  SignalHandlerContext& ctx = SignalHandlerContext::instance();
  *reinterpret_cast<int32_t*>(&ctx.signal_number) = g_first_sig;
  on_alarm(SIGALRM);
  VASSERT(false);                       // never returns: the raise ends the process
}
