// C08 — dropping queue: a statement is delivered intact or reported dropped, never both; counts add up.
#define QCAP 64
#define QTYPE BoundedDropping
#include "C11_frontend.cpp"

#ifndef NCALLS
  #define NCALLS 4
#endif
#ifndef NSTEPS
  #define NSTEPS 5
#endif

// (a) a symbolic sequence of log calls of different sizes (incl. one that can NEVER fit: 72 bytes > capacity 64)
// interleaved with backend read steps; every call is either delivered (complete, in order) or reported dropped.
struct Sent { uint8_t kind; uint64_t v; };
static Sent g_sent[NCALLS]; static uint32_t g_nsent, g_nread, g_dropped, g_attempted;
static MacroMetadata const* g_md[4];

extern "C" void h_drop_seq()
{
  BQ* q = setup(40, 0);               // concrete position (positions/wrap are C01's subject): keeps byte offsets concrete
  static constexpr MacroMetadata md0{"f.cpp:1", "fn", "a", nullptr, LogLevel::Info, MacroMetadata::Event::Log};
  static constexpr MacroMetadata md1{"f.cpp:2", "fn", "a {}", nullptr, LogLevel::Info, MacroMetadata::Event::Log};
  static constexpr MacroMetadata md2{"f.cpp:3", "fn", "a {} {} {} {} {}", nullptr, LogLevel::Info, MacroMetadata::Event::Log};
  static constexpr MacroMetadata md3{"f.cpp:4", "fn", "init", nullptr, LogLevel::Critical, MacroMetadata::Event::InitBacktrace};
  g_md[0] = &md0; g_md[1] = &md1; g_md[2] = &md2; g_md[3] = &md3;
  for (int i = 0; i < NSTEPS; i++)
  {
    if (vnd_range(0, 1) == 0)
    {
      if (g_attempted >= NCALLS) continue;
      uint8_t kind = static_cast<uint8_t>(vnd_range(0, 3));
      uint64_t v = vnd_u64();
      size_t wbefore = q->_writer_pos;
      bool ok;
      if (kind == 0) ok = g_l.l.log_statement<false, false>(LogLevel::None, &md0);
      else if (kind == 1) ok = g_l.l.log_statement<false, false>(LogLevel::None, &md1, v);
      else if (kind == 2) ok = g_l.l.log_statement<false, false>(LogLevel::None, &md2, v, v, v, v, v);   // 72 bytes: never fits
      else ok = g_l.l.log_statement<false, false>(LogLevel::None, &md3, v);                                // control event
      g_attempted++;
      if (ok) { VASSUME(g_nsent < NCALLS); g_sent[g_nsent].kind = kind; g_sent[g_nsent].v = v; g_nsent++; VASSERT(q->_writer_pos != wbefore); }
      else
      {
        // false <=> nothing was committed
        VASSERT(q->_writer_pos == wbefore);
        if (kind != 3) g_dropped++;
      }
      if (kind == 2) VASSERT(!ok);
      // the discard counter counts exactly the discarded ORDINARY statements
      VASSERT(g_c.c._failure_counter.load() == g_dropped);
    }
    else
    {
      std::byte* r = q->prepare_read();
      if (!r) { VASSERT(g_nread == g_nsent); continue; }
      VASSERT(g_nread < g_nsent);
      Hdr h; memcpy(&h, r, sizeof(Hdr));
      Sent const& s = g_sent[g_nread];
      VASSERT(h.md == g_md[s.kind]);                     // delivered in order ...
      size_t sz = 32;
      if (s.kind == 1 || s.kind == 3) { uint64_t v; memcpy(&v, r + 32, 8); VASSERT(v == s.v); sz = 40; }   // ... and intact
      q->finish_read(sz); q->commit_read();
      g_nread++;
    }
  }
  VASSERT(g_nsent + g_dropped + (g_attempted - g_nsent - g_dropped) == g_attempted);
  VWITNESS(g_dropped >= 1 && g_nread >= 2);
}

// (b) discard counter vs the backend's load/exchange pair under the release/acquire shim: every increment is
// reported exactly once (sum of reported counts + residual == increments)
extern "C" void h_counter_race()
{
  ThreadContext* tc = &g_c.c;
  *reinterpret_cast<size_t*>(&tc->_failure_counter) = 0;
  vra_register(&tc->_failure_counter, 64);
  uint32_t incs = 0; uint64_t reported = 0;
  for (int i = 0; i < 6; i++)
  {
    if (vnd_range(0, 1) == 0) { vra_set_thread(0); tc->increment_failure_counter(); incs++; }
    else { vra_set_thread(1); reported += tc->get_and_reset_failure_counter(); }
  }
  vra_set_thread(1);
  // a final backend pass after the producer stopped (and after its increments became visible) collects the rest
  uint64_t rest = vra_rmw(&tc->_failure_counter, 0, 0, 64, 0);
  VASSERT(reported + rest == incs);
  VWITNESS(incs == 3 && reported == 2 && vra_stale_reads() >= 1);
}

// (c) a DISCARDED statement with variable-length C-string arguments must leave no trace: the next statement (different
// string lengths) is encoded with ITS OWN lengths (the per-thread size cache is per statement)
extern "C" void h_drop_then_cstr()
{
  BQ* q = setup(8, 0);
  static constexpr MacroMetadata mdA{"f.cpp:1", "fn", "{} {}", nullptr, LogLevel::Info, MacroMetadata::Event::Log};
  static constexpr MacroMetadata mdB{"f.cpp:2", "fn", "{}", nullptr, LogLevel::Info, MacroMetadata::Event::Log};
  char a[SLEN + 1], b[SLEN + 1], c[SLEN + 1];
  sym_bytes(a, SLEN); a[SLEN] = 0; sym_bytes(b, SLEN); b[SLEN] = 0; sym_bytes(c, SLEN); c[SLEN] = 0;
  char const* pa = a; char const* pb = b; char const* pc = c;
  // fill the queue so that the first statement is discarded: one 40-byte record leaves 24 bytes, statement A needs >= 34
  bool ok0 = g_l.l.log_statement<false, false>(LogLevel::None, &mdB, static_cast<uint64_t>(7));
  VASSERT(ok0);
  bool okA = g_l.l.log_statement<false, false>(LogLevel::None, &mdA, pa, pb);
  VASSERT(!okA);
  // backend consumes the first record; now statement B (one C string of another length) is delivered
  std::byte* r0 = q->prepare_read(); VASSERT(r0 != nullptr); q->finish_read(40); q->commit_read();
  size_t lc = strnlen(c, SLEN);
  size_t wbefore = q->_writer_pos;
  bool okB = g_l.l.log_statement<false, false>(LogLevel::None, &mdB, pc);
  VASSERT(okB);
  VASSERT(q->_writer_pos == wbefore + 32 + lc + 1);             // reserved == written, with B's own length
  Hdr hd; std::byte* r = read_header(q, &hd);
  char const* d = Codec<char const*>::decode_arg(r);
  VASSERT(strlen(d) == lc);
  for (uint32_t i = 0; i < SLEN; i++) if (i < lc) VASSERT(d[i] == c[i]);
  VWITNESS(lc == SLEN && strnlen(a, SLEN) == 1);
}
