// C04 — DeferredFormatCodec<T> for a type that takes the placement-new path (not trivially copyable): the bytes written
// stay inside the space reserved by compute_encoded_size, wherever the record starts; the decoded object equals the
// original; encode and decode advance by exactly the reserved size.
//   (a) h_align: the real align_pointer on ANY address / power-of-two alignment = smallest aligned address >= p.
//   (b) h_deferred: the real encode / decode_arg with align_pointer replaced (IR hook) by that contract expressed in
//       pointer arithmetic the model checker understands (an integer round trip of a pointer loses the object).
#include "vh_nothrow.h"
#include "vh_noinline_quill.h"
#include "quill/DeferredFormatCodec.h"
#include "vh_noinline_end.h"
using namespace quill;

#ifndef ALIGN
  #define ALIGN 8
#endif
struct alignas(ALIGN) NT
{
  uint64_t a; uint8_t mid[7]; uint8_t last;              // the LAST byte is significant (no tail padding)
  NT() = delete;
  explicit NT(uint64_t x) : a(x), last(0) { for (auto& m : mid) m = 0; }
  NT(NT const& o) : a(o.a), last(o.last) { for (uint32_t i = 0; i < 7; i++) mid[i] = o.mid[i]; }      // user-provided: not trivially copyable
};
using DC = DeferredFormatCodec<NT>;
static_assert(!DC::use_memcpy, "placement-new path expected");

extern "C" void h_align()
{
  uint64_t p = vnd_u64();
  uint32_t sh = static_cast<uint32_t>(vnd_range(0, 6));
  uint64_t al = 1ull << sh;
  VASSUME(p <= ~0ull - 64);
  uint64_t r = reinterpret_cast<uint64_t>(DC::align_pointer(reinterpret_cast<void*>(p), al));
  VASSERT(r >= p && r - p < al && (r & (al - 1)) == 0);
  vobs(p); vobs(r);
  VWITNESS(r == p && al == 8);
}

alignas(64) static unsigned char g_buf[64];
static_assert(2 * ALIGN - 1 + sizeof(NT) + ALIGN - 1 <= 64, "buffer");
// contract of align_pointer inside g_buf (64-byte aligned): offsets instead of addresses
extern "C" std::byte* vh_align(void* p, size_t al)
{
  size_t off = static_cast<size_t>(static_cast<unsigned char*>(p) - g_buf);
  VASSERT(off < 64 && al == alignof(NT));
  size_t aligned = (off + (al - 1)) & ~(al - 1);
  return reinterpret_cast<std::byte*>(g_buf + aligned);
}

extern "C" void h_deferred()
{
  for (uint32_t i = 0; i < 64; i++) g_buf[i] = 0xEE;
  uint32_t start = static_cast<uint32_t>(vnd_range(0, 2 * ALIGN - 1));   // the record may start at any alignment
  NT x(vnd_u64());
  for (auto& m : x.mid) m = vnd_u8();
  x.last = vnd_u8();
  detail::SizeCacheVector cache;
  size_t const reserved = DC::compute_encoded_size(cache, x);
  std::byte* w = reinterpret_cast<std::byte*>(g_buf + start);
  uint32_t idx = 0;
  DC::encode(w, cache, idx, x);
  VASSERT(w == reinterpret_cast<std::byte*>(g_buf + start) + reserved);          // written == reserved
  // nothing outside [start, start + reserved) was touched
  for (uint32_t i = 0; i < 64; i++) if (i < start || i >= start + reserved) VASSERT(g_buf[i] == 0xEE);
  // what follows the argument in a record (next argument, dynamic level, next record) overwrites the bytes after it
  for (uint32_t i = 0; i < 64; i++) if (i >= start + reserved) g_buf[i] = 0x11;
  std::byte* r = reinterpret_cast<std::byte*>(g_buf + start);
  NT y = DC::decode_arg(r);
  VASSERT(r == reinterpret_cast<std::byte*>(g_buf + start) + reserved);          // consumed == reserved
  VASSERT(y.a == x.a && y.last == x.last);
  for (uint32_t i = 0; i < 7; i++) VASSERT(y.mid[i] == x.mid[i]);
  vobs(start); vobs(x.a); vobs(x.last);
  VWITNESS((start & 7) == 0);
}
