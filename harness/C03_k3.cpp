// C03 / C05 — kernel K3 on the real BackendWorker::_process_lowest_timestamp_transit_event (light worker: only the members
// the kernel touches are constructed); _dispatch_transit_event_to_sinks is observed through a hook (its own behaviour is
// decided by C12 multiline_* and C16 per_sink_loop).
#include "bk.h"
extern "C" uint32_t vh_fault(uint32_t) { return 0; }
#ifndef NREC
  #define NREC 2
#endif
#ifndef CNT0
  #define CNT0 2
#endif
#ifndef CNT1
  #define CNT1 2
#endif
#ifndef CNT2
  #define CNT2 0
#endif
#ifndef HARDL
  #define HARDL 8
#endif
#ifndef TSWIDE
  #define TSWIDE 1
#endif
static uint64_t g_disp[NCTX * NREC + 2]; static uint32_t g_ndisp;
static TransitEvent const* g_disp_te[NCTX * NREC + 2];
extern "C" void vh_dispatch(BackendWorker*, TransitEvent const& te, std::string_view const& tid, std::string_view const&)
{
  VASSUME(g_ndisp < NCTX * NREC + 2);
  g_disp[g_ndisp] = te.timestamp; g_disp_te[g_ndisp] = &te; g_ndisp++; vobs(te.timestamp);
}
static uint64_t g_ts[NCTX][NREC]; static uint32_t g_cnt[NCTX];

extern "C" void h_k3_light()
{
  new (&g_bw.b._active_thread_contexts_cache) std::vector<ThreadContext*>(); g_bw.b._active_thread_contexts_cache.reserve(4);
  new (&g_bw.b._options) BackendOptions();
  bk_init_logger(0, 0);
  for (uint32_t c = 0; c < NCTX; c++) { bk_init_context(c, 64 * c); bk_static_ring(c); }
  uint32_t total = 0;
  for (uint32_t c = 0; c < NCTX; c++)
  {
    uint32_t want = c == 0 ? CNT0 : c == 1 ? CNT1 : CNT2;
    uint64_t last = 0;
    for (uint32_t r = 0; r < NREC; r++)
      if (r < want)
      {
        TransitEvent* te = teb_at(c)->back();
        uint64_t ts = TSWIDE ? vnd_u64() : vnd_range(0, (1ull << 20));      // TSWIDE=1: any 64-bit value; 0: 20-bit stamps (cheaper comparisons)
        VASSUME(ts >= last); last = ts;          // per thread non-decreasing (any values, ties allowed)
        VASSUME(ts != ~0ull);   // excluded: the sentinel value UINT64_MAX itself (an event stamped 2^64-1 is never selected: see DESIGN.md, observations)
        te->timestamp = ts; te->macro_metadata = &MD_LOG; te->logger_base = logger_at(0);
        teb_at(c)->push_back();
        g_ts[c][g_cnt[c]++] = ts; total++;
      }
  }
  for (uint32_t i = 0; i < NCTX * NREC + 1; i++)
  {
    // smallest timestamp still buffered (front of each buffer)
    uint64_t minp = ~0ull; bool any = false;
    for (uint32_t c = 0; c < NCTX; c++) { TransitEvent* f = teb_at(c)->front(); if (f) { any = true; if (f->timestamp < minp) minp = f->timestamp; } }
    uint32_t before = g_ndisp; size_t sizes[NCTX]; for (uint32_t c = 0; c < NCTX; c++) sizes[c] = teb_at(c)->size();
    bool more = bw()._process_lowest_timestamp_transit_event();
    VASSERT(more == any);
    if (!more) { VASSERT(g_ndisp == before); break; }
    VASSERT(g_ndisp == before + 1);                       // exactly one statement dispatched per call ...
    VASSERT(g_disp[before] == minp);                      // ... the one with the minimum timestamp over ALL buffers ...
    uint32_t popped = 0; for (uint32_t c = 0; c < NCTX; c++) popped += static_cast<uint32_t>(sizes[c] - teb_at(c)->size());
    VASSERT(popped == 1);                                 // ... and exactly that one left its buffer
  }
  VASSERT(g_ndisp == total);
  for (uint32_t c = 0; c < NCTX; c++) VASSERT(teb_at(c)->empty());
  for (uint32_t i = 1; i < NCTX * NREC + 2; i++) if (i < g_ndisp) VASSERT(g_disp[i] >= g_disp[i - 1]);   // global timestamp order
  VWITNESS(g_ndisp == total && total == CNT0 + CNT1 && (CNT1 == 0 || CNT0 == 0 || g_ts[1][0] < g_ts[0][0]));
}

// ---- K1 on the real BackendWorker::_read_and_decode_frontend_queue<BoundedSPSCQueue> (light worker), records produced by
// the real log_statement: ts_now (the value the backend computed once for the pass) is a symbolic PARAMETER.
// C05 hold-back: a System-clock record newer than ts_now is left completely unconsumed, and so is everything behind it.
#ifndef K1REC
  #define K1REC 2
#endif
extern "C" void h_k1_light()
{
  new (&g_bw.b._options) BackendOptions();
  new (&g_bw.b._format_args_store) DynamicFormatArgStore();
  new (&g_bw.b._active_thread_contexts_cache) std::vector<ThreadContext*>(); g_bw.b._active_thread_contexts_cache.reserve(4);
  *reinterpret_cast<void**>(&g_bw.b._rdtsc_clock) = nullptr;
  g_bw.b._options.transit_events_hard_limit = HARDL;
  bool user_clock = vnd_bool();
  bk_init_logger(0, 0, user_clock ? ClockSourceType::User : ClockSourceType::System);
  bk_init_context(0, 64); bk_static_ring(0);
  uint64_t ts[K1REC]; bool fl[K1REC]; size_t bytes = 0;
  static std::atomic<bool> flag{false};
  LoggerBase::thread_context = ctx_at(0);
  for (uint32_t r = 0; r < K1REC; r++)
  {
    ts[r] = vnd_u64(); fl[r] = (r == K1REC - 1) ? vnd_bool() : false;      // the last record may be a Flush request
    g_clk.t = ts[r]; vll_now_value = static_cast<int64_t>(ts[r]); vll_now_set = 1;   // User clock / System clock read inside log_statement
    bool ok = fl[r] ? logger_at(0)->log_statement<false, false>(LogLevel::None, &MD_FLUSH, reinterpret_cast<uintptr_t>(&flag))
                    : logger_at(0)->log_statement<false, false>(LogLevel::None, &MD_LOG);
    VASSERT(ok); bytes += fl[r] ? 40 : 32;
  }
  uint64_t ts_now = vnd_u64();          // uint64 max = "no grace period configured"
  size_t n = bw()._read_and_decode_frontend_queue(*queue_at(0), ctx_at(0), ts_now);
  // reference: records are taken in order until the hard limit, or the first one that must be held back
  uint32_t exp = 0; size_t expbytes = 0;
  for (uint32_t r = 0; r < K1REC; r++)
  {
    bool held = !user_clock && ts_now != ~0ull && ts[r] > ts_now;
    if (held || exp >= HARDL) break;
    exp++; expbytes += fl[r] ? 40 : 32;
  }
  VASSERT(n == exp); VASSERT(teb_at(0)->size() == exp);
  VASSERT(queue_at(0)->_reader_pos == 64 + expbytes);            // consumed exactly the decoded records, nothing of a held-back one
  VASSERT(queue_at(0)->empty() == (expbytes == bytes));
  for (uint32_t r = 0; r < K1REC; r++)
    if (r < exp)
    {
      TransitEvent* te = &teb_at(0)->_storage[r];
      VASSERT(te->timestamp == ts[r]);
      VASSERT(te->macro_metadata == (fl[r] ? &MD_FLUSH : &MD_LOG));
      VASSERT(te->logger_base == logger_at(0));
      VASSERT(te->flush_flag == (fl[r] ? &flag : nullptr));
      VASSERT(te->dynamic_log_level == LogLevel::None);
    }
  VWITNESS(exp == K1REC - 1 && !user_clock && ts_now != ~0ull);      // the last record is held back
}

// ---- K4 on the real BackendWorker::_check_frontend_queues_and_cached_transit_events_empty: "nothing queued or buffered
// anywhere" - the condition under which invalid loggers / thread contexts may be freed (C17, C20).  The refresh of the
// context cache from the registry (_update_active_thread_contexts_cache) is a no-op hook: the cache is given.
extern "C" void vh_update_cache(BackendWorker*) {}
static ThreadContext* g_tcs4[4];
extern "C" void h_k4()
{
  new (&g_bw.b._options) BackendOptions();
  new (&g_bw.b._active_thread_contexts_cache) std::vector<ThreadContext*>(); g_bw.b._active_thread_contexts_cache.reserve(4);
  bk_init_logger(0, 0);
  bool queued[NCTX]; uint32_t buffered[NCTX]; bool any = false;
  for (uint32_t c = 0; c < NCTX; c++)
  {
    bk_init_context(c, vnd_bool() ? 0 : QCAP - 32); bk_static_ring(c);     // queue positions at the start or just before the wrap
    queued[c] = vnd_bool();
    if (queued[c]) VASSERT(bk_log(c, 0, 5));                               // one record written by the real log_statement, not yet read
    buffered[c] = static_cast<uint32_t>(vnd_range(0, 1));
    if (buffered[c]) { TransitEvent* te = teb_at(c)->back(); te->timestamp = 7; te->macro_metadata = &MD_LOG; te->logger_base = logger_at(0); teb_at(c)->push_back(); }
    any = any || queued[c] || buffered[c] != 0;
  }
  auto& v = g_bw.b._active_thread_contexts_cache;
  for (uint32_t i = 0; i < NCTX; i++) g_tcs4[i] = ctx_at(i);
  v._M_impl._M_start = g_tcs4; v._M_impl._M_finish = g_tcs4 + NCTX; v._M_impl._M_end_of_storage = g_tcs4 + 4;
  bool empty = bw()._check_frontend_queues_and_cached_transit_events_empty();
  VASSERT(empty == !any);               // true only if NO queue holds a record and NO ring holds an event, over ALL contexts
  VWITNESS(!empty && !queued[0] && buffered[0] == 0 && NCTX == 2);
}

// ---- K1b on the real BackendWorker::_populate_transit_events_from_frontend_queues: ONE cut-off per pass, computed from
// the clock and the grace period before any queue is read, handed unchanged to the read loop of EVERY context (each
// visited once, in cache order); the result is the sum of what the read loops report.  The read loop itself is a hook
// here (it is K1).  This is the populate contract the K5 skeletons assume.
static uint64_t g_rd_ts[4]; static ThreadContext* g_rd_ctx[4]; static uint32_t g_nrd; static uint64_t g_rd_ret[4];
extern "C" size_t vh_read_decode(BackendWorker*, BQ& q, ThreadContext* tc, uint64_t ts_now)
{
  VASSUME(g_nrd < 4);
  VASSERT(&q == &tc->_spsc_queue_union.bounded_spsc_queue);        // each context's own queue
  g_rd_ts[g_nrd] = ts_now; g_rd_ctx[g_nrd] = tc; uint64_t r = vnd_range(0, 8); g_rd_ret[g_nrd] = r; g_nrd++;
  vll_now_value += static_cast<int64_t>(vnd_u64() & 0xff);             // time passes while a queue is read
  return r;
}
extern "C" void h_populate_pass()
{
  new (&g_bw.b._options) BackendOptions();
  new (&g_bw.b._active_thread_contexts_cache) std::vector<ThreadContext*>(); g_bw.b._active_thread_contexts_cache.reserve(4);
  for (uint32_t c = 0; c < NCTX; c++) bk_init_context(c, 0);
  auto& v = g_bw.b._active_thread_contexts_cache;
  for (uint32_t i = 0; i < NCTX; i++) g_tcs4[i] = ctx_at(i);
  v._M_impl._M_start = g_tcs4; v._M_impl._M_finish = g_tcs4 + NCTX; v._M_impl._M_end_of_storage = g_tcs4 + 4;
  uint64_t grace = vnd_u64() & 0x3ff;                                  // microseconds (masked: high bits constant); 0 = ordering by grace period switched off
  g_bw.b._options.log_timestamp_ordering_grace_period = std::chrono::microseconds{static_cast<int64_t>(grace)};
  uint64_t now = (vnd_u64() & ((1ull << 40) - 1)) | (1ull << 30); vll_now_value = static_cast<int64_t>(now); vll_now_set = 1;
  size_t n = bw()._populate_transit_events_from_frontend_queues();
  VASSERT(g_nrd == NCTX);
  uint64_t sum = 0;
  for (uint32_t i = 0; i < NCTX; i++)
  {
    VASSERT(g_rd_ctx[i] == ctx_at(i));                                  // every context once, in cache order
    VASSERT(g_rd_ts[i] == g_rd_ts[0]);                                  // the SAME cut-off for every queue of the pass
    sum += g_rd_ret[i];
  }
  VASSERT(g_rd_ts[0] == (grace ? now - grace * 1000 : ~0ull));        // = clock at the START of the pass minus the grace period
  VASSERT(n == sum);
  VWITNESS(grace != 0 && NCTX == 2);
}

// ---- K6 on the real BackendWorker::_cleanup_invalidated_thread_contexts (C20, C03): a context is handed back for
// reclamation iff its thread has exited AND its queue is empty AND its ring is empty - buffered statements of an exited
// thread are never destroyed; all such contexts are removed in one call, the others stay cached in order.
// The registry calls (has_invalid_thread_context / remove_shared_invalidated_thread_context: C20 counter_*) are hooks.
static ThreadContext* g_removed[4]; static uint32_t g_nremoved;
extern "C" bool vh_has_invalid(ThreadContextManager const*) { return true; }
extern "C" void vh_remove_ctx(ThreadContextManager*, ThreadContext const* tc) { VASSUME(g_nremoved < 4); g_removed[g_nremoved++] = const_cast<ThreadContext*>(tc); }
extern "C" void h_cleanup_contexts()
{
  new (&g_bw.b._options) BackendOptions();
  new (&g_bw.b._active_thread_contexts_cache) std::vector<ThreadContext*>(); g_bw.b._active_thread_contexts_cache.reserve(4);
  bk_init_logger(0, 0);
  bool dead[NCTX], queued[NCTX], buffered[NCTX];
  for (uint32_t c = 0; c < NCTX; c++)
  {
    bk_init_context(c, 0); bk_static_ring(c);
    queued[c] = vnd_bool(); if (queued[c]) VASSERT(bk_log(c, 0, 5));
    buffered[c] = vnd_bool();
    if (buffered[c]) { TransitEvent* te = teb_at(c)->back(); te->timestamp = 7; te->macro_metadata = &MD_LOG; te->logger_base = logger_at(0); teb_at(c)->push_back(); }
    dead[c] = vnd_bool(); if (dead[c]) ctx_at(c)->mark_invalid();
  }
  auto& v = g_bw.b._active_thread_contexts_cache;
  for (uint32_t i = 0; i < NCTX; i++) g_tcs4[i] = ctx_at(i);
  v._M_impl._M_start = g_tcs4; v._M_impl._M_finish = g_tcs4 + NCTX; v._M_impl._M_end_of_storage = g_tcs4 + 4;
  bw()._cleanup_invalidated_thread_contexts();
  uint32_t exp = 0, kept = 0;
  for (uint32_t c = 0; c < NCTX; c++)
  {
    bool reclaim = dead[c] && !queued[c] && !buffered[c];
    uint32_t times = 0; for (uint32_t i = 0; i < 4; i++) if (i < g_nremoved && g_removed[i] == ctx_at(c)) times++;
    VASSERT(times == (reclaim ? 1u : 0u));               // only when drained, and then always (in this very call)
    if (reclaim) exp++;
    else { VASSERT(kept < v.size() && v[kept] == ctx_at(c)); kept++; }     // the others stay cached, in order
  }
  VASSERT(g_nremoved == exp); VASSERT(v.size() == kept);
  VWITNESS(NCTX == 2 && exp == 1 && dead[0] && dead[1] && buffered[1]);
}

// ---- K7 (C20): the real _update_active_thread_contexts_cache (with the real ThreadContextManager::new_thread_context_flag
// and for_each_thread_context over a registry laid out in static storage) followed by the real
// _cleanup_invalidated_thread_contexts: whenever the backend refreshes its cache - e.g. because a new thread registered -
// every registered context is in the cache afterwards, so a context whose thread has exited and whose statements were all
// written is reclaimed by the clean-up that follows; contexts with anything pending stay.
union TCMSlot { ThreadContextManager m; TCMSlot() {} ~TCMSlot() {} };
static TCMSlot g_tcm;
struct SPLayout { ThreadContext* p; void* ctrl; };             // std::shared_ptr<ThreadContext>: object pointer, control block
static SPLayout g_sp[4];
static_assert(sizeof(std::shared_ptr<ThreadContext>) == sizeof(SPLayout), "shared_ptr layout");
// K7 light: the refresh alone (no queued records, no buffered events, no clean-up afterwards)
extern "C" void h_update_only()
{
  new (&g_bw.b._options) BackendOptions();
  new (&g_bw.b._active_thread_contexts_cache) std::vector<ThreadContext*>();
  ThreadContextManager* m = &g_tcm.m;
  new (&m->_thread_contexts) std::vector<std::shared_ptr<ThreadContext>>();
  new (&m->_spinlock) Spinlock();
  reinterpret_cast<void**>(&g_bw.b._backend_worker_lock)[1] = m;
  for (uint32_t c = 0; c < NCTX; c++)
  {
    bk_init_context(c, 0); bk_static_ring(c);
    if (vnd_bool()) ctx_at(c)->mark_invalid();                       // its thread has exited; nothing queued, nothing buffered
    g_sp[c].p = ctx_at(c); g_sp[c].ctrl = nullptr;
  }
  auto* spv = reinterpret_cast<std::shared_ptr<ThreadContext>*>(g_sp);
  m->_thread_contexts._M_impl._M_start = spv; m->_thread_contexts._M_impl._M_finish = spv + NCTX; m->_thread_contexts._M_impl._M_end_of_storage = spv + 4;
  *reinterpret_cast<bool*>(&m->_new_thread_context_flag) = true;
  auto& v = g_bw.b._active_thread_contexts_cache;
  g_tcs4[0] = ctx_at(0);
  v._M_impl._M_start = g_tcs4; v._M_impl._M_finish = g_tcs4 + 1; v._M_impl._M_end_of_storage = g_tcs4 + 4;      // context 0 was cached before
  bw()._update_active_thread_contexts_cache();
  // every registered context is cached, in registration order - also one whose thread has already exited with nothing
  // pending: only a cached context can be handed back by the clean-up (K6), a skipped one would be retained for ever
  VASSERT(v.size() == NCTX);
  for (uint32_t i = 0; i < NCTX; i++) if (i < v.size()) VASSERT(v[i] == ctx_at(i));
  VASSERT(!m->new_thread_context_flag());
  VWITNESS(!ctx_at(1)->is_valid());
}

extern "C" void h_update_cleanup()
{
  new (&g_bw.b._options) BackendOptions();
  new (&g_bw.b._active_thread_contexts_cache) std::vector<ThreadContext*>();
  bk_init_logger(0, 0);
  ThreadContextManager* m = &g_tcm.m;
  new (&m->_thread_contexts) std::vector<std::shared_ptr<ThreadContext>>();
  new (&m->_spinlock) Spinlock();
  reinterpret_cast<void**>(&g_bw.b._backend_worker_lock)[1] = m;        // BackendWorker::_thread_context_manager (a reference member)
  bool dead[NCTX], queued[NCTX], buffered[NCTX];
  for (uint32_t c = 0; c < NCTX; c++)
  {
    bk_init_context(c, 0); bk_static_ring(c);
    queued[c] = vnd_bool(); if (queued[c]) VASSERT(bk_log(c, 0, 5));
    buffered[c] = vnd_bool();
    if (buffered[c]) { TransitEvent* te = teb_at(c)->back(); te->timestamp = 7; te->macro_metadata = &MD_LOG; te->logger_base = logger_at(0); teb_at(c)->push_back(); }
    dead[c] = vnd_bool(); if (dead[c]) ctx_at(c)->mark_invalid();
    g_sp[c].p = ctx_at(c); g_sp[c].ctrl = nullptr;
  }
  auto* spv = reinterpret_cast<std::shared_ptr<ThreadContext>*>(g_sp);
  m->_thread_contexts._M_impl._M_start = spv; m->_thread_contexts._M_impl._M_finish = spv + NCTX; m->_thread_contexts._M_impl._M_end_of_storage = spv + 4;
  // the cache before the refresh: the contexts registered earlier (a prefix); the rest registered since
  uint32_t known = static_cast<uint32_t>(vnd_range(0, NCTX));
  bool const newflag = true;                                         // a context registered since the last refresh (or a spurious request)
  *reinterpret_cast<bool*>(&m->_new_thread_context_flag) = newflag;
  auto& v = g_bw.b._active_thread_contexts_cache;
  for (uint32_t i = 0; i < NCTX; i++) g_tcs4[i] = ctx_at(i);
  // (without a refresh the cache is complete: written so that its size is then a constant for symbolic execution)
  v._M_impl._M_start = g_tcs4; v._M_impl._M_finish = newflag ? g_tcs4 + known : g_tcs4 + NCTX; v._M_impl._M_end_of_storage = g_tcs4 + 4;
  bw()._update_active_thread_contexts_cache();
  // every registered context is cached, in registration order
  VASSERT(v.size() == NCTX);
  for (uint32_t i = 0; i < NCTX; i++) if (i < v.size()) VASSERT(v[i] == ctx_at(i));
  VASSERT(!m->new_thread_context_flag());                             // the request was consumed
  bw()._cleanup_invalidated_thread_contexts();
  uint32_t exp = 0, kept = 0;
  for (uint32_t c = 0; c < NCTX; c++)
  {
    bool reclaim = dead[c] && !queued[c] && !buffered[c];
    uint32_t times = 0; for (uint32_t i = 0; i < 4; i++) if (i < g_nremoved && g_removed[i] == ctx_at(c)) times++;
    VASSERT(times == (reclaim ? 1u : 0u));
    if (reclaim) exp++;
    else { VASSERT(kept < v.size() && v[kept] == ctx_at(c)); kept++; }
  }
  VASSERT(g_nremoved == exp); VASSERT(v.size() == kept);
  vobs(known); vobs(exp);
  VWITNESS(known < NCTX && exp >= 1);
}
