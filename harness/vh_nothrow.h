// "Throw shortcut" for no-exceptions harness builds: QUILL_THROW(ex) keeps its meaning (fatal error, the path
// ends) but the error-message string is not constructed ("end error paths after the check they guard").
// Must be included before any other quill header.
#pragma once
#include "vh.h"
#include "quill/core/QuillError.h"
#undef QUILL_THROW
#define QUILL_THROW(ex) vll_abort()
