// C13 — TimestampFormatter: (a) the constructor splits the pattern at the ONE fractional specifier into the two strftime
// parts and rejects more than one specifier; (b) format_timestamp renders part1 + zero-padded fraction + part2 with the
// seconds value floor(ns / 1e9) handed to both parts and exactly 3 / 6 / 9 fraction digits.
//   REAL: TimestampFormatter::TimestampFormatter, format_timestamp, _write_fractional_seconds, fmtquill::format_int,
//         fmt memory-buffer appends.   HOOKS: StringFromTime::init (records pattern + zone), StringFromTime::format_timestamp
//         (returns a fixed two-character text per part and records the instant) - StringFromTime is decided by the
//         C13 sft_* / populate_* queries.
#include "vh_nothrow.h"
#include "vh_noinline_quill.h"
#include "quill/backend/StringFromTime.h"
#include "quill/backend/TimestampFormatter.h"
#include "vh_noinline_end.h"
using namespace quill;
using namespace quill::detail;

#ifndef FLEN
  #define FLEN 6
#endif
union TSlot { TimestampFormatter t; TSlot() {} ~TSlot() {} };
static TSlot g_t;
union StrSlot { std::string s; StrSlot() {} ~StrSlot() {} };
static StrSlot g_r1, g_r2, g_arg;

// ---- recording hooks
static uint32_t g_ninit;
static StringFromTime* g_init_self[2];
static char g_init_fmt[2][16];
static uint32_t g_init_len[2];
static uint8_t g_init_tz[2];
extern "C" void vh_sft_init(StringFromTime* self, std::string* fmt, uint8_t tz)
{
  VASSERT(g_ninit < 2);
  g_init_self[g_ninit] = self; g_init_tz[g_ninit] = tz;
  g_init_len[g_ninit] = static_cast<uint32_t>(fmt->size());
  VASSERT(fmt->size() < 16);
  for (uint32_t k = 0; k < 15; k++) if (k < fmt->size()) g_init_fmt[g_ninit][k] = (*fmt)[k];
  g_ninit++;
}
static uint32_t g_nfmt;
static StringFromTime* g_fmt_self[2];
static int64_t g_fmt_ts[2];
extern "C" std::string const* vh_sft_format(StringFromTime* self, int64_t ts)
{
  VASSERT(g_nfmt < 2);
  g_fmt_self[g_nfmt] = self; g_fmt_ts[g_nfmt] = ts; g_nfmt++;
  return self == &g_t.t._strftime_part_1 ? &g_r1.s : &g_r2.s;
}

// ---- independent reference: where is a fractional specifier, which kind
static int spec_at(char const* f, uint32_t n, uint32_t i)
{
  if (i + 4 > n || f[i] != '%' || f[i + 1] != 'Q' || f[i + 3] != 's') return 0;
  return f[i + 2] == 'm' ? 1 : f[i + 2] == 'u' ? 2 : f[i + 2] == 'n' ? 3 : 0;
}
static char const g_alpha[] = {'%', 'Q', 'm', 'u', 'n', 's', 'H', ':'};

extern "C" void h_tsf_ctor()
{
  // any pattern of 0..FLEN bytes over the alphabet of the specifiers plus two ordinary characters
  char f[FLEN + 1];
  uint32_t n = static_cast<uint32_t>(vnd_range(0, FLEN));
  for (uint32_t i = 0; i < FLEN; i++) f[i] = i < n ? g_alpha[vnd_range(0, sizeof(g_alpha) - 1)] : 0;
  f[FLEN] = 0;
  bool gmt = vnd_bool();
  // reference
  uint32_t kinds = 0, first_pos[4] = {0, 0, 0, 0}; bool seen[4] = {false, false, false, false};
  for (uint32_t i = 0; i < FLEN; i++)
  {
    int k = spec_at(f, n, i);
    if (k && !seen[k]) { seen[k] = true; first_pos[k] = i; kinds++; }
  }
  bool reject = kinds > 1;
  new (&g_arg.s) std::string(f, n);
  vll_fatal_ok = reject;
  TimestampFormatter* t = new (&g_t.t) TimestampFormatter(std::move(g_arg.s), gmt ? Timezone::GmtTime : Timezone::LocalTime);
  VASSERT(!reject);                                      // more than one kind of fractional specifier must be refused
  int kind = seen[1] ? 1 : seen[2] ? 2 : seen[3] ? 3 : 0;
  VASSERT(static_cast<int>(t->_additional_format_specifier) == kind);
  VASSERT(t->_timestamp_timezone == (gmt ? Timezone::GmtTime : Timezone::LocalTime));
  if (kind == 0)
  {
    VASSERT(g_ninit == 1 && g_init_self[0] == &t->_strftime_part_1 && g_init_len[0] == n && !t->_has_format_part_2);
    for (uint32_t i = 0; i < FLEN; i++) if (i < n) VASSERT(g_init_fmt[0][i] == f[i]);
  }
  else
  {
    uint32_t p = first_pos[kind];
    uint32_t rest = n - (p + 4);
    VASSERT(g_ninit == (rest ? 2u : 1u));
    VASSERT(t->_has_format_part_2 == (rest != 0));
    VASSERT(g_init_self[0] == &t->_strftime_part_1 && g_init_len[0] == p);
    for (uint32_t i = 0; i < FLEN; i++) if (i < p) VASSERT(g_init_fmt[0][i] == f[i]);
    if (rest)
    {
      VASSERT(g_init_self[1] == &t->_strftime_part_2 && g_init_len[1] == rest);
      for (uint32_t i = 0; i < FLEN; i++) if (i < rest) VASSERT(g_init_fmt[1][i] == f[p + 4 + i]);
    }
  }
  for (uint32_t i = 0; i < g_ninit; i++) VASSERT(g_init_tz[i] == static_cast<uint8_t>(gmt ? Timezone::GmtTime : Timezone::LocalTime));
  vobs(kind); vobs(g_ninit); vobs(n);
  VWITNESS(kind == 2 && t->_has_format_part_2);
}

#ifndef NSBITS
  #define NSBITS 41
#endif
extern "C" void h_tsf_format()
{
  // state as the constructor leaves it for "<part1>%Q?s<part2>" (h_tsf_ctor decides that), parts rendered by the hook
  // (members laid out one by one: the constructor is the subject of h_tsf_ctor)
  TimestampFormatter* t = &g_t.t;
  new (&t->_time_format) std::string();
  new (&t->_formatted_date) fmtquill::basic_memory_buffer<char, 32>();
  new (&t->_strftime_part_1) StringFromTime(); new (&t->_strftime_part_2) StringFromTime();
  t->_timestamp_timezone = Timezone::GmtTime;
  // the two rendered parts: string objects written field by field (lengths are constants for symbolic execution)
  g_r1.s._M_dataplus._M_p = g_r1.s._M_local_buf; g_r1.s._M_local_buf[0] = 'A'; g_r1.s._M_local_buf[1] = 'B'; g_r1.s._M_local_buf[2] = 0; g_r1.s._M_string_length = 2;
  g_r2.s._M_dataplus._M_p = g_r2.s._M_local_buf; g_r2.s._M_local_buf[0] = 'Y'; g_r2.s._M_local_buf[1] = 'Z'; g_r2.s._M_local_buf[2] = 0; g_r2.s._M_string_length = 2;
#ifdef KIND
  uint32_t kind = KIND;                                    // concrete per query
#else
  uint32_t kind = static_cast<uint32_t>(vnd_range(0, 3));
#endif
  t->_additional_format_specifier = static_cast<TimestampFormatter::AdditionalSpecifier>(kind);
  t->_has_format_part_2 = vnd_bool();
  for (uint32_t call = 0; call < NCALLS; call++)
  {
    g_nfmt = 0;
    uint64_t ns = vnd_u64() & ((1ull << NSBITS) - 1);           // any instant of the first 2^NSBITS ns of the epoch
    std::string_view got = t->format_timestamp(std::chrono::nanoseconds{static_cast<int64_t>(ns)});
    // reference, division-free: the seconds value s handed to the parts satisfies s*1e9 <= ns < (s+1)*1e9; the digits
    // shown, read back as a number v, satisfy v*unit <= ns - s*1e9 < (v+1)*unit (truncation, never rounding)
    uint32_t width = kind == 1 ? 3 : kind == 2 ? 6 : kind == 3 ? 9 : 0;
    uint64_t unit = kind == 1 ? 1000000 : kind == 2 ? 1000 : 1;
    VASSERT(got.size() == 2 + width + (t->_has_format_part_2 ? 2u : 0u));
    VASSERT(got[0] == 'A' && got[1] == 'B');
    VASSERT(g_nfmt >= 1);
    uint64_t secs = static_cast<uint64_t>(g_fmt_ts[0]);
    VASSERT(secs * 1000000000ull <= ns && ns - secs * 1000000000ull < 1000000000ull);
    uint64_t frac = ns - secs * 1000000000ull;
    uint64_t v = 0;
    for (uint32_t d = 0; d < 9; d++)
      if (d < width) { char c = got[2 + d]; VASSERT(c >= '0' && c <= '9'); v = v * 10 + static_cast<uint64_t>(c - '0'); }
    if (width) VASSERT(v * unit <= frac && frac - v * unit < unit);
    if (t->_has_format_part_2) VASSERT(got[2 + width] == 'Y' && got[3 + width] == 'Z');
    VASSERT(g_nfmt == (t->_has_format_part_2 ? 2u : 1u));
    VASSERT(g_fmt_self[0] == &t->_strftime_part_1 && g_fmt_ts[0] == static_cast<int64_t>(secs));
    if (t->_has_format_part_2) VASSERT(g_fmt_self[1] == &t->_strftime_part_2 && g_fmt_ts[1] == static_cast<int64_t>(secs));
    vobs(ns); vobs(got.size());
  }
  VWITNESS(t->_has_format_part_2);
}
