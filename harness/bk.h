// Backend kit: a small system of real objects for the backend-kernel harnesses (C03, C05, C06, C10, C17, C07):
//   real BackendWorker (real constructor), real LoggerImpl<FO> objects, real ThreadContext objects with real bounded
//   queues and real TransitEventBuffers, recording Sink subclasses.  Records are produced by the REAL
//   LoggerImpl::log_statement; the backend side runs the REAL BackendWorker functions.
// Cut (see props): libfmt rendering (_populate_formatted_log_message -> no-op, PatternFormatter::format -> fixed view),
//   TransitEvent ctor/move (shallow model), clocks (harness-controlled), sleeping.
#pragma once
#ifndef BK_EXC
  #include "vh_nothrow.h"
#else
  #include "vh.h"
#endif
#include "vh_noinline_quill.h"
#include "quill/backend/BackendWorker.h"
#include "quill/Logger.h"
#include "quill/sinks/Sink.h"
#include "quill/UserClockSource.h"
#include "vh_noinline_end.h"
using namespace quill;
using namespace quill::detail;

#ifndef QCAP
  #define QCAP 128
#endif
#ifndef NCTX
  #define NCTX 2
#endif
#ifndef NLOG
  #define NLOG 1
#endif
#ifndef NSINK
  #define NSINK 2
#endif
#ifndef TEBCAP
  #define TEBCAP 2
#endif
#define NEV 16

struct FO
{
  static constexpr QueueType queue_type = QueueType::BoundedBlocking;
  static constexpr size_t initial_queue_capacity = QCAP;
  static constexpr uint32_t blocking_queue_retry_interval_ns = 0;
  static constexpr size_t unbounded_queue_max_capacity = QCAP;
  static constexpr HugePagesPolicy huge_pages_policy = HugePagesPolicy::Never;
};
using L = LoggerImpl<FO>;
using BQ = BoundedSPSCQueue;

// ---- what the sinks observed, in order
struct Ev { uint8_t kind; uint8_t sink; uint64_t ts; };   // kind 0 = write_log, 1 = flush_sink
static Ev g_ev[NEV]; static uint32_t g_nev;
static void rec(uint8_t kind, uint8_t sink, uint64_t ts)
{
  VASSUME(g_nev < NEV);
  g_ev[g_nev].kind = kind; g_ev[g_nev].sink = sink; g_ev[g_nev].ts = ts; g_nev++;
  vobs(kind); vobs(sink); vobs(ts);
}
extern "C" uint32_t vh_fault(uint32_t site);   // harness-defined: should this sink call throw? (EXC harnesses)
extern "C" void vh_throw(uint32_t site);

struct RecSink : Sink
{
  uint8_t id;
  void write_log(MacroMetadata const*, uint64_t ts, std::string_view, std::string_view, std::string const&, std::string_view, LogLevel,
                 std::string_view, std::string_view, std::vector<std::pair<std::string, std::string>> const*, std::string_view,
                 std::string_view) override
  {
#ifdef BK_EXC
    vh_throw(id);             // harness-defined: throws (or not) for this call site
#endif
    rec(0, id, ts);
  }
  void flush_sink() override
  {
#ifdef BK_EXC
    vh_throw(8 + id);
#endif
    rec(1, id, 0);
  }
  void run_periodic_tasks() noexcept override { periodic++; }
  uint32_t periodic;
  using Sink::apply_all_filters;
};

union BwSlot { BackendWorker b; BwSlot() {} ~BwSlot() {} };
union LSlot { L l; LSlot() {} ~LSlot() {} };
union CSlot { ThreadContext c; CSlot() {} ~CSlot() {} };
union SSlot { RecSink s; SSlot() {} ~SSlot() {} };
union TSlot { TransitEventBuffer t; TSlot() {} ~TSlot() {} };
union PSlot { PatternFormatter p; PSlot() {} ~PSlot() {} };
// separate static objects (never arrays of big structs indexed symbolically)
static BwSlot g_bw;
static LSlot g_l0, g_l1;
static CSlot g_c0, g_c1, g_c2;
static SSlot g_s0, g_s1;
static TSlot g_t0, g_t1, g_t2;
static PSlot g_pf;
// queue storage typed as pointer-sized cells: records here consist of 8-byte fields at 8-byte aligned offsets, and CBMC
// only keeps track of a POINTER copied through memory when the cells it travels through are pointer-typed
static void* g_st0[2 * QCAP / 8]; static void* g_st1[2 * QCAP / 8]; static void* g_st2[2 * QCAP / 8];
struct Clk : UserClockSource { uint64_t t; uint64_t now() const override { return t; } };
static Clk g_clk;

static L* logger_at(uint32_t i) { return i == 0 ? &g_l0.l : &g_l1.l; }
static ThreadContext* ctx_at(uint32_t i) { return i == 0 ? &g_c0.c : i == 1 ? &g_c1.c : &g_c2.c; }
static RecSink* sink_at(uint32_t i) { return i == 0 ? &g_s0.s : &g_s1.s; }
static TransitEventBuffer* teb_at(uint32_t i) { return i == 0 ? &g_t0.t : i == 1 ? &g_t1.t : &g_t2.t; }
static unsigned char* storage_at(uint32_t i) { return reinterpret_cast<unsigned char*>(i == 0 ? g_st0 : i == 1 ? g_st1 : g_st2); }
static BQ* queue_at(uint32_t i) { return &ctx_at(i)->_spsc_queue_union.bounded_spsc_queue; }
static BackendWorker& bw() { return g_bw.b; }

template <typename T> static void nodel(T*) {}

static void bk_init_backend()
{
  new (&g_bw.b) BackendWorker();
  BackendOptions& o = g_bw.b._options;
  o.sleep_duration = std::chrono::nanoseconds{0};
  o.enable_yield_when_idle = false;
  // no reallocation later: libstdc++ relocates trivially copyable elements with memmove, and a pointer that went through a
  // byte-wise copy is no longer tracked by CBMC's symbolic execution (everything behind it becomes unconstrained)
  g_bw.b._active_thread_contexts_cache.reserve(4);
  g_bw.b._active_sinks_cache.reserve(4);
}
// light variant: only the options member is constructed (for kernels that use nothing else of the worker)
static void bk_init_backend_light() { new (&g_bw.b._options) BackendOptions(); }
static void bk_init_sink(uint32_t i) { RecSink* s = new (sink_at(i)) RecSink(); s->id = static_cast<uint8_t>(i); s->periodic = 0; }

// logger i writing to sinks [0, nsinks)
static L* bk_init_logger(uint32_t i, uint32_t nsinks, ClockSourceType cs = ClockSourceType::User)
{
  L* l = logger_at(i);
  memset(static_cast<void*>(l), 0, sizeof(L));
  new (&l->sinks) std::vector<std::shared_ptr<Sink>>();
  for (uint32_t k = 0; k < nsinks; k++) l->sinks.push_back(std::shared_ptr<Sink>(sink_at(k), nodel<Sink>));
  new (&l->logger_name) std::string(i == 0 ? "l0" : "l1");
  new (&l->pattern_formatter) std::shared_ptr<PatternFormatter>(&g_pf.p, nodel<PatternFormatter>);   // never dereferenced: format() is cut
  new (&l->backtrace_storage) std::shared_ptr<BacktraceStorage>();
  l->user_clock = &g_clk; l->clock_source = cs;
  *reinterpret_cast<LogLevel*>(&l->log_level) = LogLevel::TraceL3;
  *reinterpret_cast<LogLevel*>(&l->backtrace_flush_level) = LogLevel::None;
  *reinterpret_cast<bool*>(&l->valid) = true;
  return l;
}

// thread context i with an empty bounded queue at a CONCRETE position and a real transit buffer of TEBCAP slots;
// it is put straight into the backend's active-context cache (registration is checked separately, C20)
static ThreadContext* bk_init_context(uint32_t i, size_t pos = 0)
{
  ThreadContext* tc = ctx_at(i);
  BQ* q = &tc->_spsc_queue_union.bounded_spsc_queue;
  const_cast<size_t&>(q->_capacity) = QCAP; const_cast<size_t&>(q->_mask) = QCAP - 1; const_cast<size_t&>(q->_bytes_per_batch) = QCAP / 20;
  *const_cast<std::byte**>(&q->_storage) = reinterpret_cast<std::byte*>(storage_at(i));
  *reinterpret_cast<size_t*>(&q->_atomic_writer_pos) = pos; q->_writer_pos = pos; q->_writer_pos_cache = pos;
  *reinterpret_cast<size_t*>(&q->_atomic_reader_pos) = pos; q->_reader_pos = pos; q->_reader_pos_cache = pos;
  tc->_queue_type = FO::queue_type;
  new (&tc->_conditional_arg_size_cache) SizeCacheVector();
  new (&tc->_thread_id) std::string(i == 0 ? "10" : i == 1 ? "11" : "12");
  new (&tc->_thread_name) std::string("t");
  TransitEventBuffer* teb = new (teb_at(i)) TransitEventBuffer(TEBCAP);
  new (&tc->_transit_event_buffer) std::shared_ptr<TransitEventBuffer>(teb, nodel<TransitEventBuffer>);
  *reinterpret_cast<bool*>(&tc->_valid) = true;
  *reinterpret_cast<size_t*>(&tc->_failure_counter) = 0;
  bw()._active_thread_contexts_cache.push_back(tc);
  return tc;
}

// typed static storage for the transit rings (reads of event fields then fold to constants in symbolic execution; an
// untyped new[] block makes every field read a byte-extract the simplifier cannot resolve).  The block the real constructor
// allocated is dropped; valid while the ring never expands (harnesses that use it forbid / never reach _expand).
#ifndef BK_NO_STATIC_RING
union TeRing { TransitEvent e[TEBCAP]; TeRing() {} ~TeRing() {} };
static TeRing g_ring0, g_ring1, g_ring2;
static void bk_static_ring(uint32_t i)
{
  TransitEvent* base = i == 0 ? g_ring0.e : i == 1 ? g_ring1.e : g_ring2.e;
  for (uint32_t k = 0; k < TEBCAP; k++) new (&base[k]) TransitEvent();
  *reinterpret_cast<TransitEvent**>(&teb_at(i)->_storage) = base;
}
#endif

static constexpr MacroMetadata MD_LOG{"f.cpp:1", "fn", "m", nullptr, LogLevel::Info, MacroMetadata::Event::Log};
static constexpr MacroMetadata MD_FLUSH{"", "", "", nullptr, LogLevel::Critical, MacroMetadata::Event::Flush};

// a log call from "thread" i through the REAL log_statement (header-only record, timestamp ts)
static bool bk_log(uint32_t ctx, uint32_t logger, uint64_t ts, MacroMetadata const* md = &MD_LOG)
{
  g_clk.t = ts;
  LoggerBase::thread_context = ctx_at(ctx);
  return logger_at(logger)->log_statement<false, false>(LogLevel::None, md);
}
static uint32_t count_writes(uint8_t sink, uint64_t ts)
{
  uint32_t n = 0;
  for (uint32_t i = 0; i < NEV; i++) if (i < g_nev && g_ev[i].kind == 0 && g_ev[i].sink == sink && g_ev[i].ts == ts) n++;
  return n;
}
