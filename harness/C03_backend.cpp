// C03 / K1+K3 — real read/decode of the frontend queues into the transit buffers and real minimum-timestamp
// dispatch to the sinks, on records produced by the real log_statement.
#include "bk.h"

#ifndef SOFT
  #define SOFT 4
#endif
#ifndef HARD
  #define HARD 8
#endif
#ifndef NREC
  #define NREC 2
#endif
#ifndef STOP_AFTER
  #define STOP_AFTER 0
#endif
#ifndef CNT0
  #define CNT0 NREC
#endif
#ifndef CNT1
  #define CNT1 NREC
#endif
#ifndef CNT2
  #define CNT2 0
#endif

extern "C" uint32_t vh_fault(uint32_t) { return 0; }

static uint64_t g_ts[NCTX][NREC]; static uint32_t g_cnt[NCTX];

static void check_all_delivered()
{
  // every accepted statement reached each sink of its logger exactly once ...
  for (uint32_t c = 0; c < NCTX; c++)
    for (uint32_t r = 0; r < NREC; r++)
      if (r < g_cnt[c]) { VASSERT(count_writes(0, g_ts[c][r]) == 1); VASSERT(count_writes(1, g_ts[c][r]) == 1); }
  // ... and nothing else was written
  uint32_t total = 0; for (uint32_t c = 0; c < NCTX; c++) total += g_cnt[c];
  uint32_t writes = 0; for (uint32_t i = 0; i < NEV; i++) if (i < g_nev && g_ev[i].kind == 0) writes++;
  VASSERT(writes == 2 * total);
  // per sink: non-decreasing timestamps (which, with per-thread increasing stamps, is thread order)
  for (uint32_t s = 0; s < 2; s++)
  {
    uint64_t last = 0;
    for (uint32_t i = 0; i < NEV; i++)
      if (i < g_nev && g_ev[i].kind == 0 && g_ev[i].sink == s) { VASSERT(g_ev[i].ts >= last); last = g_ev[i].ts; }
  }
}

extern "C" void h_k1k3()
{
  bk_init_backend();
#if STOP_AFTER == 1
  return;
#endif
  bw()._options.transit_events_soft_limit = SOFT; bw()._options.transit_events_hard_limit = HARD;
  bw()._options.log_timestamp_ordering_grace_period = std::chrono::microseconds{0};
  bk_init_sink(0); bk_init_sink(1);
  bk_init_logger(0, 2);
#if STOP_AFTER == 2
  return;
#endif
  for (uint32_t c = 0; c < NCTX; c++) bk_init_context(c, 64 * c);
#if STOP_AFTER == 3
  return;
#endif
  // each thread logs 0..NREC statements with increasing, globally distinct timestamps
  uint64_t prev_all[NCTX * NREC]; uint32_t np = 0;
  for (uint32_t c = 0; c < NCTX; c++)
  {
    uint64_t last = 0;
    // the NUMBER of statements per thread is concrete per query (CNT0/CNT1/CNT2): queue positions stay concrete, so CBMC
    // resolves the read loops by constant propagation instead of unrolling infeasible iterations; timestamps are symbolic
    uint32_t want = c == 0 ? CNT0 : c == 1 ? CNT1 : CNT2;
    for (uint32_t r = 0; r < NREC; r++)
      if (r < want)
      {
        uint64_t ts = vnd_range(1, 1000);
        VASSUME(ts > last);
        for (uint32_t k = 0; k < NCTX * NREC; k++) if (k < np) VASSUME(prev_all[k] != ts);
        bool ok = bk_log(c, 0, ts);
        VASSERT(ok);
        g_ts[c][g_cnt[c]++] = ts; prev_all[np++] = ts; last = ts;
      }
  }
#if STOP_AFTER == 4
  return;
#endif
  // backend: one populate pass, then dispatch until nothing is buffered
  size_t cached = bw()._populate_transit_events_from_frontend_queues();
  uint32_t total = 0; for (uint32_t c = 0; c < NCTX; c++) total += g_cnt[c];
  VASSERT(cached == total || total > HARD);
  for (uint32_t c = 0; c < NCTX; c++) { VASSERT(queue_at(c)->empty()); VASSERT(teb_at(c)->size() == g_cnt[c]); }
#ifdef K1ONLY
  return;
#endif
  for (uint32_t i = 0; i < NCTX * NREC + 1; i++)
    if (!bw()._process_lowest_timestamp_transit_event()) break;
  for (uint32_t c = 0; c < NCTX; c++) VASSERT(teb_at(c)->empty());
  check_all_delivered();
  VWITNESS(total == NCTX * NREC && g_ts[0][0] > g_ts[1][0]);
}

// ---- K1 alone: real populate pass over real queues filled by the real log_statement; the decoded events must carry
// exactly the header fields that were logged (so that K3, which starts from events, composes with it)
extern "C" void h_k1()
{
  bk_init_backend();
  bw()._options.transit_events_soft_limit = SOFT; bw()._options.transit_events_hard_limit = HARD;
  bw()._options.log_timestamp_ordering_grace_period = std::chrono::microseconds{0};
  bk_init_sink(0);
  bk_init_logger(0, 1); bk_init_logger(1, 1);
  for (uint32_t c = 0; c < NCTX; c++) bk_init_context(c, 64 * c);
  uint8_t lg[NCTX][NREC];
  for (uint32_t c = 0; c < NCTX; c++)
  {
    uint32_t want = c == 0 ? CNT0 : c == 1 ? CNT1 : CNT2;
    for (uint32_t r = 0; r < NREC; r++)
      if (r < want)
      {
        uint64_t ts = vnd_u64();
        lg[c][r] = static_cast<uint8_t>(vnd_range(0, 1));
        bool ok = bk_log(c, lg[c][r], ts);
        VASSERT(ok);
        g_ts[c][g_cnt[c]++] = ts;
      }
  }
  size_t cached = bw()._populate_transit_events_from_frontend_queues();
  uint32_t total = 0;
  for (uint32_t c = 0; c < NCTX; c++)
  {
    uint32_t exp = g_cnt[c] < HARD ? g_cnt[c] : HARD;      // the hard limit stops the read of one queue
    total += exp;
    VASSERT(teb_at(c)->size() == exp);
    VASSERT(queue_at(c)->_reader_pos == 64 * c + 32 * exp);                           // finish_read for exactly the decoded records
    VASSERT((queue_at(c)->empty()) == (exp == g_cnt[c]));
    for (uint32_t r = 0; r < NREC; r++)
      if (r < exp)
      {
        TransitEvent* te = &teb_at(c)->_storage[(teb_at(c)->_reader_pos + r) & teb_at(c)->_mask];
        VASSERT(te->timestamp == g_ts[c][r]);                                          // in thread order, each once
        VASSERT(te->macro_metadata == &MD_LOG);
        VASSERT(te->logger_base == logger_at(lg[c][r]));
        VASSERT(te->dynamic_log_level == LogLevel::None);
        VASSERT(te->flush_flag == nullptr);
      }
  }
  VASSERT(cached == total);
  VWITNESS(total >= 3);
}

// ---- K3 alone: events sit in the transit buffers (any timestamps); real minimum-timestamp dispatch to the sinks
extern "C" void h_k3()
{
  bk_init_backend();
  bk_init_sink(0); bk_init_sink(1);
  bk_init_logger(0, 2); bk_init_logger(1, 1);          // logger 0 -> sinks {0,1}; logger 1 -> sink {0}
  for (uint32_t c = 0; c < NCTX; c++) bk_init_context(c, 64 * c);
  uint8_t lg[NCTX][NREC]; uint32_t total = 0;
  for (uint32_t c = 0; c < NCTX; c++)
  {
    uint32_t want = c == 0 ? CNT0 : c == 1 ? CNT1 : CNT2;
    uint64_t last = 0;
    for (uint32_t r = 0; r < NREC; r++)
      if (r < want)
      {
        TransitEvent* te = teb_at(c)->back();
        uint64_t ts = vnd_range(1, 1000); VASSUME(ts > last); last = ts;     // per-thread increasing (thread order)
        lg[c][r] = static_cast<uint8_t>(vnd_range(0, 1));
        te->timestamp = ts; te->macro_metadata = &MD_LOG; te->logger_base = logger_at(lg[c][r]);
        teb_at(c)->push_back();
        g_ts[c][g_cnt[c]++] = ts; total++;
      }
  }
  // distinct stamps identify statements
  for (uint32_t a = 0; a < NREC; a++) for (uint32_t b = 0; b < NREC; b++) if (a < g_cnt[0] && b < g_cnt[1]) VASSUME(g_ts[0][a] != g_ts[1][b]);
  for (uint32_t i = 0; i < NCTX * NREC + 1; i++)
  {
    uint32_t before = g_nev;
    bool more = bw()._process_lowest_timestamp_transit_event();
    if (!more) { VASSERT(g_nev == before); break; }
    // exactly ONE statement was dispatched: the global minimum; written once to every sink of ITS logger
    VASSERT(g_nev > before);
    uint64_t ts = g_ev[before].ts;
    for (uint32_t c = 0; c < NCTX; c++)
      for (uint32_t r = 0; r < NREC; r++)
        if (r < g_cnt[c] && count_writes(0, g_ts[c][r]) == 0) VASSERT(g_ts[c][r] >= ts);   // nothing smaller is still pending
  }
  for (uint32_t c = 0; c < NCTX; c++) VASSERT(teb_at(c)->empty());
  for (uint32_t c = 0; c < NCTX; c++)
    for (uint32_t r = 0; r < NREC; r++)
      if (r < g_cnt[c])
      {
        VASSERT(count_writes(0, g_ts[c][r]) == 1);                                      // sink 0 belongs to both loggers
        VASSERT(count_writes(1, g_ts[c][r]) == (lg[c][r] == 0 ? 1u : 0u));              // sink 1 only to logger 0
      }
  uint32_t writes = 0; for (uint32_t i = 0; i < NEV; i++) if (i < g_nev && g_ev[i].kind == 0) writes++;
  uint32_t expw = 0; for (uint32_t c = 0; c < NCTX; c++) for (uint32_t r = 0; r < NREC; r++) if (r < g_cnt[c]) expw += (lg[c][r] == 0 ? 2 : 1);
  VASSERT(writes == expw);
  for (uint32_t s = 0; s < 2; s++)
  {
    uint64_t last = 0;
    for (uint32_t i = 0; i < NEV; i++) if (i < g_nev && g_ev[i].kind == 0 && g_ev[i].sink == s) { VASSERT(g_ev[i].ts >= last); last = g_ev[i].ts; }
  }
  VWITNESS(total == 4 && g_ts[0][0] > g_ts[1][1]);
}

// ---- K1 on ONE record with everything else symbolic: timestamp, backend clock, grace period, clock source, event kind.
// C05 hold-back kernel: a System/Tsc-clock statement newer than (now - grace) is left in the queue, completely unconsumed;
// a User-clock statement, or grace == 0, is never held back.  C06: a Flush request carries its flag pointer intact.
extern "C" int64_t vll_now_value; extern "C" int vll_now_set;
extern "C" void h_k1_one()
{
  bk_init_backend();
  bw()._options.transit_events_soft_limit = 4; bw()._options.transit_events_hard_limit = 8;
  uint64_t grace_us = vnd_range(0, 1000000);
  uint64_t now_ns = vnd_range(2000000000ull, 4000000000000000000ull);
  bw()._options.log_timestamp_ordering_grace_period = std::chrono::microseconds{static_cast<int64_t>(grace_us)};
  vll_now_value = static_cast<int64_t>(now_ns); vll_now_set = 1;      // what system_clock::now() returns to the backend
  bk_init_sink(0);
  bool user_clock = vnd_bool();
  bk_init_logger(0, 1, user_clock ? ClockSourceType::User : ClockSourceType::System);
  bk_init_context(0, 64);
  uint64_t ts = vnd_u64();
  bool is_flush = vnd_bool();
  static std::atomic<bool> flag{false};
  LoggerBase::thread_context = ctx_at(0);
  bool ok;
  if (!user_clock) { vll_now_value = static_cast<int64_t>(ts); }        // System clock: log_statement reads the clock itself
  g_clk.t = ts;
  if (is_flush) ok = logger_at(0)->log_statement<false, false>(LogLevel::None, &MD_FLUSH, reinterpret_cast<uintptr_t>(&flag));
  else ok = logger_at(0)->log_statement<false, false>(LogLevel::None, &MD_LOG);
  VASSERT(ok);
  vll_now_value = static_cast<int64_t>(now_ns);
  size_t rec = is_flush ? 40 : 32;
  VASSERT(queue_at(0)->_writer_pos == 64 + rec);
  size_t cached = bw()._populate_transit_events_from_frontend_queues();
  uint64_t ts_now = now_ns - grace_us * 1000;
  bool held = !user_clock && grace_us != 0 && ts > ts_now;
  if (held)
  {
    // nothing consumed: the record (and everything behind it) stays queued
    VASSERT(cached == 0); VASSERT(teb_at(0)->empty());
    VASSERT(queue_at(0)->_reader_pos == 64); VASSERT(!queue_at(0)->empty());
  }
  else
  {
    VASSERT(cached == 1); VASSERT(teb_at(0)->size() == 1);
    VASSERT(queue_at(0)->_reader_pos == 64 + rec); VASSERT(queue_at(0)->empty());
    TransitEvent* te = teb_at(0)->front();
    VASSERT(te->timestamp == ts);
    VASSERT(te->macro_metadata == (is_flush ? &MD_FLUSH : &MD_LOG));
    VASSERT(te->logger_base == logger_at(0));
    VASSERT(te->flush_flag == (is_flush ? &flag : nullptr));
    VASSERT(te->dynamic_log_level == LogLevel::None);
  }
  VWITNESS(held && is_flush);
}
