// C03 / K1+K3 — real read/decode of the frontend queues into the transit buffers and real minimum-timestamp
// dispatch to the sinks, on records produced by the real log_statement.
#include "bk.h"

#ifndef SOFT
  #define SOFT 4
#endif
#ifndef HARD
  #define HARD 8
#endif
#ifndef NREC
  #define NREC 2
#endif
#ifndef STOP_AFTER
  #define STOP_AFTER 0
#endif
#ifndef CNT0
  #define CNT0 NREC
#endif
#ifndef CNT1
  #define CNT1 NREC
#endif
#ifndef CNT2
  #define CNT2 0
#endif

extern "C" uint32_t vh_fault(uint32_t) { return 0; }

static uint64_t g_ts[NCTX][NREC]; static uint32_t g_cnt[NCTX];

static void check_all_delivered()
{
  // every accepted statement reached each sink of its logger exactly once ...
  for (uint32_t c = 0; c < NCTX; c++)
    for (uint32_t r = 0; r < NREC; r++)
      if (r < g_cnt[c]) { VASSERT(count_writes(0, g_ts[c][r]) == 1); VASSERT(count_writes(1, g_ts[c][r]) == 1); }
  // ... and nothing else was written
  uint32_t total = 0; for (uint32_t c = 0; c < NCTX; c++) total += g_cnt[c];
  uint32_t writes = 0; for (uint32_t i = 0; i < NEV; i++) if (i < g_nev && g_ev[i].kind == 0) writes++;
  VASSERT(writes == 2 * total);
  // per sink: non-decreasing timestamps (which, with per-thread increasing stamps, is thread order)
  for (uint32_t s = 0; s < 2; s++)
  {
    uint64_t last = 0;
    for (uint32_t i = 0; i < NEV; i++)
      if (i < g_nev && g_ev[i].kind == 0 && g_ev[i].sink == s) { VASSERT(g_ev[i].ts >= last); last = g_ev[i].ts; }
  }
}

extern "C" void h_k1k3()
{
  bk_init_backend();
#if STOP_AFTER == 1
  return;
#endif
  bw()._options.transit_events_soft_limit = SOFT; bw()._options.transit_events_hard_limit = HARD;
  bw()._options.log_timestamp_ordering_grace_period = std::chrono::microseconds{0};
  bk_init_sink(0); bk_init_sink(1);
  bk_init_logger(0, 2);
#if STOP_AFTER == 2
  return;
#endif
  for (uint32_t c = 0; c < NCTX; c++) bk_init_context(c, 64 * c);
#if STOP_AFTER == 3
  return;
#endif
  // each thread logs 0..NREC statements with increasing, globally distinct timestamps
  uint64_t prev_all[NCTX * NREC]; uint32_t np = 0;
  for (uint32_t c = 0; c < NCTX; c++)
  {
    uint64_t last = 0;
    // the NUMBER of statements per thread is concrete per query (CNT0/CNT1/CNT2): queue positions stay concrete, so CBMC
    // resolves the read loops by constant propagation instead of unrolling infeasible iterations; timestamps are symbolic
    uint32_t want = c == 0 ? CNT0 : c == 1 ? CNT1 : CNT2;
    for (uint32_t r = 0; r < NREC; r++)
      if (r < want)
      {
        uint64_t ts = vnd_range(1, 1000);
        VASSUME(ts > last);
        for (uint32_t k = 0; k < NCTX * NREC; k++) if (k < np) VASSUME(prev_all[k] != ts);
        bool ok = bk_log(c, 0, ts);
        VASSERT(ok);
        g_ts[c][g_cnt[c]++] = ts; prev_all[np++] = ts; last = ts;
      }
  }
#if STOP_AFTER == 4
  return;
#endif
  // backend: one populate pass, then dispatch until nothing is buffered
  size_t cached = bw()._populate_transit_events_from_frontend_queues();
  uint32_t total = 0; for (uint32_t c = 0; c < NCTX; c++) total += g_cnt[c];
  VASSERT(cached == total || total > HARD);
  for (uint32_t c = 0; c < NCTX; c++) { VASSERT(queue_at(c)->empty()); VASSERT(teb_at(c)->size() == g_cnt[c]); }
#ifdef K1ONLY
  return;
#endif
  for (uint32_t i = 0; i < NCTX * NREC + 1; i++)
    if (!bw()._process_lowest_timestamp_transit_event()) break;
  for (uint32_t c = 0; c < NCTX; c++) VASSERT(teb_at(c)->empty());
  check_all_delivered();
  VWITNESS(total == NCTX * NREC && g_ts[0][0] > g_ts[1][0]);
}
