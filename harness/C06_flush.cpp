// C06 (caller side) — flush_log / init_backtrace / flush_backtrace on a DROPPING queue: the control request is retried
// until accepted (never discarded, never duplicated) and flush_log returns only after the backend has set its flag.
// The backend is a fair stub run from the cut sleep/yield: it consumes one record per yield, in order, and sets the flag
// of a Flush request when it reaches it (the real backend side of this hand-over is K1/K3 of C03, not claimed).
#define QCAP 64
#define QTYPE BoundedDropping
#include "C11_frontend.cpp"

static uint32_t g_yields, g_flush_seen, g_initbt_seen, g_flushbt_seen, g_other_seen;
static std::atomic<bool>* g_flag_ptr;
static BQ* g_q;

// one backend step
static void backend_step()
{
  std::byte* r = g_q->prepare_read();
  if (!r) return;
  Hdr h; memcpy(&h, r, sizeof(Hdr));
  size_t sz = 32;
  if (h.md->event() == MacroMetadata::Event::Flush)
  {
    uintptr_t p; memcpy(&p, r + 32, 8); sz = 40;
    g_flag_ptr = reinterpret_cast<std::atomic<bool>*>(p);
    g_flush_seen++;
  }
  else if (h.md->event() == MacroMetadata::Event::InitBacktrace) { sz = 36; g_initbt_seen++; }
  else if (h.md->event() == MacroMetadata::Event::FlushBacktrace) { g_flushbt_seen++; }
  else { sz = 40; g_other_seen++; }
  g_q->finish_read(sz); g_q->commit_read();
  if (h.md->event() == MacroMetadata::Event::Flush) g_flag_ptr->store(true);     // after everything ahead of it was consumed
}
extern "C" void vh_yield() { g_yields++; backend_step(); }

extern "C" void h_flush_log()
{
  g_q = setup(16, 0);
  static constexpr MacroMetadata md{"f.cpp:1", "fn", "a {}", nullptr, LogLevel::Info, MacroMetadata::Event::Log};
  // 0..1 earlier statements of this thread still queued (40 bytes each): the 40-byte flush request may not fit at first
  uint32_t earlier = static_cast<uint32_t>(vnd_range(0, 1));
  uint64_t v = vnd_u64();
  if (earlier) { bool ok = g_l.l.log_statement<false, false>(LogLevel::None, &md, v); VASSERT(ok); }
  uint32_t sleep_ns = static_cast<uint32_t>(vnd_range(0, 1)) * 100;      // both wait styles: sleep_for / yield
  g_l.l.flush_log(sleep_ns);
  // when flush_log returns: the request was enqueued EXACTLY once, it was not discarded, everything ahead of it was consumed,
  // and the backend had set the caller's flag
  VASSERT(g_flush_seen == 1);
  VASSERT(g_other_seen == earlier);
  VASSERT(g_q->empty());
  VASSERT(g_flag_ptr != nullptr);
  VASSERT(g_c.c._failure_counter.load() == 0);       // a retried control request is not a discarded statement
  VWITNESS(earlier == 1 && g_yields >= 2);
}

extern "C" void h_backtrace_requests()
{
  g_q = setup(16, 0);
  static constexpr MacroMetadata md{"f.cpp:1", "fn", "a {}", nullptr, LogLevel::Info, MacroMetadata::Event::Log};
  uint32_t earlier = static_cast<uint32_t>(vnd_range(0, 1));
  if (earlier) { bool ok = g_l.l.log_statement<false, false>(LogLevel::None, &md, vnd_u64()); VASSERT(ok); }
  uint32_t cap = static_cast<uint32_t>(vnd_u64());
  LogLevel fl = static_cast<LogLevel>(vnd_range(0, 10));
  bool which = vnd_bool();
  if (which) g_l.l.init_backtrace(cap, fl); else g_l.l.flush_backtrace();
  // drain
  for (int i = 0; i < 3; i++) backend_step();
  VASSERT(g_initbt_seen == (which ? 1u : 0u));
  VASSERT(g_flushbt_seen == (which ? 0u : 1u));
  VASSERT(g_other_seen == earlier);
  if (which) VASSERT(g_l.l.backtrace_flush_level.load() == fl);
  VWITNESS(earlier == 1 && g_yields >= 1);
}
