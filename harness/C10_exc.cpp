// C10 (reduced) — a failing statement / a throwing sink disturbs nothing else: the REAL catch blocks of the backend,
// with C++ exceptions encoded by the translator's pending-exception model (engine/ll2c.py: invoke / landingpad / resume /
// __cxa_throw / __cxa_begin_catch, type matching over the typeinfo chain).
//   h_event : real BackendWorker::_process_lowest_timestamp_transit_event + _process_transit_event; the per-sink
//             dispatch is a hook that throws a std::exception-derived error, a non-std object, or nothing (symbolic).
//   h_sinks : real _dispatch_transit_event_to_sinks under the same catch blocks, with REAL virtual write_log calls on
//             recording sinks that throw on symbolically chosen calls.
//   h_flush : real _flush_and_run_active_sinks: per-sink try/catch around flush_sink.
#define BK_EXC 1
#include "bk.h"

#ifndef NEVT
  #define NEVT 2
#endif
#ifndef NDISPMAX
  #define NDISPMAX (NEVT + 6)
#endif
struct HErr : std::exception { char const* what() const noexcept override { return "herr"; } };
static uint32_t g_notes; static uint32_t g_note_std;
static void notifier(std::string const& s) { g_notes++; if (s.size() == 4 && s[0] == 'h') g_note_std++; vobs(s.size()); }

// which calls fail: site -> 0 no, 1 std::exception-derived, 2 non-std object
static uint8_t g_fault[16];
extern "C" uint32_t vh_fault(uint32_t site) { return site < 16 ? g_fault[site] : 0; }
static void maybe_throw(uint32_t site)
{
  uint32_t f = vh_fault(site);
  if (f == 1) throw HErr();
  if (f == 2) throw 7;
}

extern "C" void vh_throw(uint32_t site);
static uint64_t g_disp[NDISPMAX]; static uint32_t g_ndisp; static uint32_t g_mode; static uint32_t g_cur; static uint32_t g_evt;
extern "C" void vh_dispatch(BackendWorker* w, TransitEvent const& te, std::string_view const& tid, std::string_view const& tn)
{
  VASSUME(g_ndisp < NDISPMAX);
  uint32_t k = g_ndisp;
  g_disp[g_ndisp] = te.timestamp; g_ndisp++; vobs(te.timestamp);
  if (g_mode == 0) { maybe_throw(g_evt); return; }
  if (g_mode == 2) { maybe_throw(k); return; }
  // h_sinks: the REAL per-sink loop (filters, formatter choice, virtual write_log) with sinks that throw
  g_cur = k;
  std::string_view d{"D"}, c{"C"}, msg{"m"};
  w->_write_log_statement(te, tid, tn, d, c, msg);
}
// sink call sites: write of sink i for the k-th dispatched event = 4 * k + i; flush of sink i = 12 + i
extern "C" void vh_throw(uint32_t site) { maybe_throw(site < 8 ? 4 * g_cur + site : 12 + (site - 8)); }
extern "C" std::string_view vh_pf_format(PatternFormatter*, uint64_t, std::string_view, std::string_view, std::string_view,
                                         std::string_view, std::string_view, std::string_view, MacroMetadata const&,
                                         std::vector<std::pair<std::string, std::string>> const*, std::string_view)
{
  return std::string_view{"L", 1};
}
static constexpr MacroMetadata MD_BT{"f.cpp:2", "fn", "m", nullptr, LogLevel::Backtrace, MacroMetadata::Event::Log};

// static storage for the vectors the kernels iterate over (concrete begin/end: the loops unwind exactly)
static ThreadContext* g_tcs[4];
union SpSlots { std::shared_ptr<Sink> a[2]; SpSlots() {} ~SpSlots() {} };
static SpSlots g_sp;
static void static_context_cache(uint32_t n)
{
  auto& v = g_bw.b._active_thread_contexts_cache;
  for (uint32_t i = 0; i < n; i++) g_tcs[i] = ctx_at(i);
  v._M_impl._M_start = g_tcs; v._M_impl._M_finish = g_tcs + n; v._M_impl._M_end_of_storage = g_tcs + 4;
}
static void static_sinks(L* l, uint32_t n)
{
  for (uint32_t k = 0; k < n; k++) new (&g_sp.a[k]) std::shared_ptr<Sink>(sink_at(k), nodel<Sink>);
  l->sinks._M_impl._M_start = g_sp.a; l->sinks._M_impl._M_finish = g_sp.a + n; l->sinks._M_impl._M_end_of_storage = g_sp.a + 2;
}
static void light_worker()
{
  new (&g_bw.b._active_thread_contexts_cache) std::vector<ThreadContext*>(); g_bw.b._active_thread_contexts_cache.reserve(4);
  new (&g_bw.b._options) BackendOptions();
  g_bw.b._options.error_notifier = notifier;
}

using NA0 = std::vector<std::pair<std::string, std::string>>;
union NA0Slot { NA0 v; NA0Slot() {} ~NA0Slot() {} };
static NA0Slot g_ev_na;
union PairStore { std::pair<std::string, std::string> p[1]; PairStore() {} ~PairStore() {} };
static PairStore g_ev_na_ps;
#define g_ev_na_store g_ev_na_ps.p
extern "C" void h_event()
{
  light_worker();
  bk_init_logger(0, 0);
  bk_init_context(0, 0); static_context_cache(1); bk_static_ring(0);
  uint64_t last = 0;
  for (uint32_t r = 0; r < NEVT; r++)
  {
    TransitEvent* te = teb_at(0)->back();
    uint64_t ts = vnd_range(0, 1u << 20); VASSUME(ts >= last); last = ts;
    // kind 3: a LOG_BACKTRACE statement on a logger whose backtrace was never initialised (the real code throws QuillError)
    g_fault[r] = static_cast<uint8_t>(vnd_range(0, 3));
    te->timestamp = ts; te->macro_metadata = g_fault[r] == 3 ? &MD_BT : &MD_LOG; te->logger_base = logger_at(0);
    if (r == 0)
    {
      // the first event carries one named argument (typed static storage, SSO strings: no heap)
      NA0* na = new (&g_ev_na.v) NA0();
      new (&g_ev_na_store[0]) std::pair<std::string, std::string>("k", "v");
      na->_M_impl._M_start = g_ev_na_store; na->_M_impl._M_finish = g_ev_na_store + 1; na->_M_impl._M_end_of_storage = g_ev_na_store + 1;
      *reinterpret_cast<NA0**>(&te->named_args) = na;
    }
    teb_at(0)->push_back();
  }
  uint32_t faults = 0, bts = 0;
  for (uint32_t i = 0; i < NEVT; i++)
  {
    size_t before = teb_at(0)->size(); uint32_t notes = g_notes, disp = g_ndisp; g_evt = i;
    bool more = false, escaped = false;
    try { more = bw()._process_lowest_timestamp_transit_event(); } catch (...) { escaped = true; }
    VASSERT(!escaped);                                   // nothing escapes the per-event catch blocks
    VASSERT(more);                                       // the backend goes on
    VASSERT(teb_at(0)->size() == before - 1);            // the event is consumed whether or not it failed: never re-read
    VASSERT(g_ndisp == disp + (g_fault[i] == 3 ? 0u : 1u));   // exactly one dispatch attempt (none for the unusable backtrace statement)
    VASSERT(g_notes == notes + (g_fault[i] ? 1u : 0u));  // reported once iff it failed
    if (i == 0) VASSERT(g_ev_na.v.empty());               // the slot is recycled: its named arguments are cleared even if the event failed
    if (g_fault[i]) faults++;
    if (g_fault[i] == 3) bts++;
  }
  VASSERT(!bw()._process_lowest_timestamp_transit_event());
  VASSERT(teb_at(0)->empty());
  for (uint32_t i = 1; i < NEVT; i++) if (i < g_ndisp) VASSERT(g_disp[i] >= g_disp[i - 1]);
  VASSERT(g_notes == faults);
  VWITNESS(faults == NEVT && g_fault[0] == 1 && g_fault[NEVT - 1] == 2 && g_note_std == 1);
}

// ---- throwing sinks under the real per-sink loop and the real per-event catch blocks
extern "C" void h_sinks()
{
  light_worker(); new (&g_bw.b._process_id) std::string("42");
  g_mode = 1;
  bk_init_sink(0); bk_init_sink(1);
  L* l = bk_init_logger(0, 0);
  static_sinks(l, NSINK);
  bk_init_context(0, 0); static_context_cache(1); bk_static_ring(0);
  for (uint32_t r = 0; r < NEVT; r++)
  {
    TransitEvent* te = teb_at(0)->back();
    te->timestamp = 10 + r; te->macro_metadata = &MD_LOG; te->logger_base = l; te->flush_flag = nullptr;
    *reinterpret_cast<void**>(&te->named_args) = nullptr;
    teb_at(0)->push_back();
    for (uint32_t k = 0; k < NSINK; k++) g_fault[4 * r + k] = static_cast<uint8_t>(vnd_range(0, 2));
  }
  uint32_t exp_notes = 0;
  for (uint32_t r = 0; r < NEVT; r++)
  {
    bool more = false, escaped = false;
    try { more = bw()._process_lowest_timestamp_transit_event(); } catch (...) { escaped = true; }
    VASSERT(!escaped); VASSERT(more);
    VASSERT(teb_at(0)->size() == NEVT - 1 - r);
    // the statement reaches every sink BEFORE the first one that throws, exactly once; it is missing at most from the
    // throwing sink and the sinks after it; one report
    bool failed = false;
    for (uint32_t k = 0; k < NSINK; k++)
    {
      if (g_fault[4 * r + k]) failed = true;
      VASSERT(count_writes(static_cast<uint8_t>(k), 10 + r) == (failed ? 0u : 1u));
    }
    if (failed) exp_notes++;
    VASSERT(g_notes == exp_notes);
  }
  VASSERT(!bw()._process_lowest_timestamp_transit_event());
  // order at each sink = statement order
  for (uint32_t i = 1; i < NEV; i++) if (i < g_nev) VASSERT(g_ev[i].ts >= g_ev[i - 1].ts);
  VWITNESS(g_fault[NSINK - 1] == 1 && (NSINK == 1 || g_fault[0] == 0) && g_notes >= 1 && g_note_std >= 1);
}

// ---- the real _flush_and_run_active_sinks: per-sink try/catch around flush_sink; for_each_logger (registry walk) is a
// hook that fills the active-sink cache with the harness's sinks
extern "C" void vh_for_each_logger_flush(LoggerManager const*, BackendWorker* w)
{
  for (uint32_t k = 0; k < NSINK; k++) w->_active_sinks_cache.push_back(sink_at(k));
}
extern "C" void h_flush()
{
  light_worker();
  new (&g_bw.b._active_sinks_cache) std::vector<Sink*>(); g_bw.b._active_sinks_cache.reserve(4);
  bk_init_sink(0); bk_init_sink(1);
  for (uint32_t k = 0; k < NSINK; k++) g_fault[12 + k] = static_cast<uint8_t>(vnd_range(0, 2));
  bool periodic = vnd_bool();
  bool escaped = false;
  try { bw()._flush_and_run_active_sinks(periodic, std::chrono::milliseconds{0}); } catch (...) { escaped = true; }
  VASSERT(!escaped);
  uint32_t faults = 0;
  for (uint32_t k = 0; k < NSINK; k++)
  {
    // every sink's flush is attempted exactly once whatever the others did; periodic tasks still run for every sink
    uint32_t fl = 0; for (uint32_t i = 0; i < NEV; i++) if (i < g_nev && g_ev[i].kind == 1 && g_ev[i].sink == k) fl++;
    VASSERT(fl == (g_fault[12 + k] ? 0u : 1u));
    VASSERT(sink_at(k)->periodic == (periodic ? 1u : 0u));
    if (g_fault[12 + k]) faults++;
  }
  VASSERT(g_notes == faults);
  VASSERT(bw()._active_sinks_cache.empty());
  VWITNESS(faults == 1 && g_fault[12] == 2 && g_nev == 1);
}


// ---- a Flush request whose sinks throw while being flushed: the caller's flag is still raised (flush_log() returns),
// the event is consumed, failures are reported; _cleanup_invalidated_thread_contexts (C20) is a no-op hook
extern "C" void vh_cleanup_contexts(BackendWorker*) {}
extern "C" void h_flush_event()
{
  light_worker();
  new (&g_bw.b._active_sinks_cache) std::vector<Sink*>(); g_bw.b._active_sinks_cache.reserve(4);
  bk_init_sink(0); bk_init_sink(1);
  L* l = bk_init_logger(0, 0);
  static_sinks(l, NSINK);
  bk_init_context(0, 0); static_context_cache(1); bk_static_ring(0);
  static std::atomic<bool> flag{false};
  TransitEvent* te = teb_at(0)->back();
  te->timestamp = 10; te->macro_metadata = &MD_FLUSH; te->logger_base = l; te->flush_flag = &flag;
  *reinterpret_cast<void**>(&te->named_args) = nullptr;
  teb_at(0)->push_back();
  for (uint32_t k = 0; k < NSINK; k++) g_fault[12 + k] = static_cast<uint8_t>(vnd_range(0, 2));
  bool more = false, escaped = false;
  try { more = bw()._process_lowest_timestamp_transit_event(); } catch (...) { escaped = true; }
  VASSERT(!escaped); VASSERT(more);
  VASSERT(flag.load());                                  // flush_log() of the caller returns
  VASSERT(teb_at(0)->empty());
  VASSERT(te->flush_flag == nullptr);                    // the slot is reusable
  uint32_t faults = 0;
  for (uint32_t k = 0; k < NSINK; k++)
  {
    uint32_t fl = 0; for (uint32_t i = 0; i < NEV; i++) if (i < g_nev && g_ev[i].kind == 1 && g_ev[i].sink == k) fl++;
    VASSERT(fl == (g_fault[12 + k] ? 0u : 1u));
    if (g_fault[12 + k]) faults++;
  }
  VASSERT(g_notes == faults);
  VWITNESS(faults == NSINK && g_fault[12] == 1);
}

// ---- a statement that cannot be formatted: the REAL _populate_formatted_log_message with libfmt's vformat_to replaced
// by a hook that renders "ok" or throws (std::exception-derived / non-std object); fmtquill::format (error text) is a
// hook returning a fixed text.  Decides: nothing escapes (the record behind it would otherwise never be marked read),
// stale buffer content is replaced by the error text, the failure is reported once.
union FBSlot { TransitEvent::FormatBuffer b; FBSlot() {} ~FBSlot() {} };
static FBSlot g_fb;
union TE1 { TransitEvent e; TE1() {} ~TE1() {} };
static TE1 g_te1;
using BI = std::back_insert_iterator<TransitEvent::FormatBuffer>;
extern "C" TransitEvent::FormatBuffer* vh_vformat_to(BI* out, char const*, size_t, uint64_t, fmtquill::detail::value<fmtquill::format_context>*)
{
  maybe_throw(0);
  *(*out)++ = 'o'; *(*out)++ = 'k';
  return &g_fb.b;
}
extern "C" void vh_format3(std::string* ret, char const*, size_t, char const**, char const**, char const**) { new (ret) std::string("E"); }
extern "C" void vh_format1(std::string* ret, char const*, size_t, unsigned long*) { new (ret) std::string("_0"); }
extern "C" void vh_format2(std::string* ret, char const*, size_t, char const**, char const**) { new (ret) std::string("E"); }
extern "C" void h_format()
{
  light_worker();
  new (&g_bw.b._format_args_store) DynamicFormatArgStore();
  TransitEvent::FormatBuffer* fb = new (&g_fb.b) TransitEvent::FormatBuffer();
  char const stale[] = "stale"; fb->append(stale, stale + 5);
  TransitEvent& te = g_te1.e;
  memset(static_cast<void*>(&te), 0, sizeof(TransitEvent));
  te.macro_metadata = &MD_LOG; *reinterpret_cast<TransitEvent::FormatBuffer**>(&te.formatted_msg) = fb;
  g_fault[0] = static_cast<uint8_t>(vnd_range(0, 2));
  bool escaped = false;
  try { bw()._populate_formatted_log_message(&te, "x {}"); } catch (...) { escaped = true; }
  VASSERT(!escaped);
  VASSERT(g_notes == (g_fault[0] ? 1u : 0u));
  if (g_fault[0]) { VASSERT(fb->size() == 1); VASSERT((*fb)[0] == 'E'); }
  else { VASSERT(fb->size() == 2); VASSERT((*fb)[0] == 'o' && (*fb)[1] == 'k'); }
  VWITNESS(g_fault[0] == 2);
}

// ---- second formatting pass of a statement with named arguments: the REAL _populate_formatted_named_args with the
// per-argument rendering (_format_and_split_arguments) replaced by a hook that throws; nothing may escape (an exception
// here would leave the record unread and the backend would decode it again on every poll)
using NA = std::vector<std::pair<std::string, std::string>>;
union NASlot { NA v; NASlot() {} ~NASlot() {} };
static NASlot g_na, g_names;
static std::pair<std::string, std::string> g_na_store[2];
extern "C" void vh_split(NA const&, NA&, DynamicFormatArgStore const&, BackendOptions const&) { maybe_throw(0); }
extern "C" void h_format_named()
{
  light_worker();
  new (&g_bw.b._format_args_store) DynamicFormatArgStore();
  NA* na = new (&g_na.v) NA(); NA* names = new (&g_names.v) NA();
  TransitEvent& te = g_te1.e;
  memset(static_cast<void*>(&te), 0, sizeof(TransitEvent));
  te.macro_metadata = &MD_LOG; *reinterpret_cast<NA**>(&te.named_args) = na;
  g_fault[0] = static_cast<uint8_t>(vnd_range(0, 2));
  bool escaped = false;
  try { bw()._populate_formatted_named_args(&te, *names); } catch (...) { escaped = true; }
  VASSERT(!escaped);
  VWITNESS(g_fault[0] == 2);
}

// ---- flushing a backtrace while a sink throws: the REAL _process_transit_event -> BacktraceStorage::process ->
// per-statement dispatch (hook that may throw).  Every stored statement is handed out exactly once - never again at the
// next flush - and a failing one does not take the others with it.
#include "quill/backend/BacktraceStorage.h"
union BSSlot { BacktraceStorage b; BSSlot() {} ~BSSlot() {} };
static BSSlot g_bs;
extern "C" void h_backtrace_flush()
{
  light_worker();
  L* l = bk_init_logger(0, 0);
  bk_init_context(0, 0); static_context_cache(1); bk_static_ring(0);
  BacktraceStorage* bs = new (&g_bs.b) BacktraceStorage();
  bs->set_capacity(2);
  std::string_view tid{"1"}, tn{"t"};
  for (uint32_t k = 0; k < 2; k++)
  {
    TransitEvent t; t.timestamp = 100 + k; t.macro_metadata = &MD_LOG; t.logger_base = l;
    bs->store(std::move(t), tid, tn);
  }
  new (&l->backtrace_storage) std::shared_ptr<BacktraceStorage>(bs, nodel<BacktraceStorage>);
  *reinterpret_cast<LogLevel*>(&l->backtrace_flush_level) = LogLevel::Info;       // MD_LOG is Info: every statement triggers the flush
  // two ordinary statements; dispatch order: #0 = first statement, #1 #2 = the stored backtrace, #3 = second statement
  for (uint32_t r = 0; r < 2; r++)
  {
    TransitEvent* te = teb_at(0)->back();
    te->timestamp = 10 + r; te->macro_metadata = &MD_LOG; te->logger_base = l; te->flush_flag = nullptr;
    *reinterpret_cast<void**>(&te->named_args) = nullptr;
    teb_at(0)->push_back();
  }
  g_fault[1] = static_cast<uint8_t>(vnd_range(0, 2)); g_fault[2] = static_cast<uint8_t>(vnd_range(0, 2));
  g_mode = 2;                                            // vh_dispatch: fault site = running dispatch count
  for (uint32_t r = 0; r < 2; r++)
  {
    bool more = false, escaped = false;
    try { more = bw()._process_lowest_timestamp_transit_event(); } catch (...) { escaped = true; }
    VASSERT(!escaped); VASSERT(more);
  }
  uint32_t n100 = 0, n101 = 0, n10 = 0, n11 = 0;
  for (uint32_t i = 0; i < NDISPMAX; i++) if (i < g_ndisp) { n100 += g_disp[i] == 100; n101 += g_disp[i] == 101; n10 += g_disp[i] == 10; n11 += g_disp[i] == 11; }
  VASSERT(n10 == 1 && n11 == 1);                         // the ordinary statements: once each
  VASSERT(n100 == 1 && n101 == 1);                       // every stored backtrace statement handed out exactly once: not again at the next flush, not skipped because its neighbour failed
  VASSERT(g_notes == (g_fault[1] ? 1u : 0u) + (g_fault[2] ? 1u : 0u));
  VWITNESS(g_fault[1] == 1 && g_fault[2] == 0);
}
