// C13 (StringFromTime part) — the incremental patching of the cached time string equals a fresh rendering, for any
// sequence of instants (increasing, repeated, going backwards); libc broken-down time and strftime = rt/m_time.c.
#include "vh_nothrow.h"
#include "vh_noinline_quill.h"
#include "quill/backend/StringFromTime.h"
#include "vh_noinline_end.h"
using namespace quill;
using namespace quill::detail;
extern "C" int64_t vll_tz_offset;

#ifndef PATTERN
  #define PATTERN "%H:%M:%S"
#endif
#ifndef NCALLS
  #define NCALLS 3
#endif
union SSlot { StringFromTime s; SSlot() {} ~SSlot() {} };
static SSlot g_s;

extern "C" void h_string_from_time()
{
  StringFromTime* s = new (&g_s.s) StringFromTime();
#ifdef LOCALTZ
  vll_tz_offset = (static_cast<int64_t>(vnd_range(0, 2)) == 0 ? -18000 : 20700);       // UTC-5 / UTC+5:45
  s->init(PATTERN, Timezone::LocalTime);
#else
  vll_tz_offset = 0;
  s->init(PATTERN, Timezone::GmtTime);
#endif
  int64_t base = 1000000000;                       // 2001-09-09: ten-digit epochs
  for (uint32_t i = 0; i < NCALLS; i++)
  {
    int64_t t = base + static_cast<int64_t>(vnd_range(0, 2 * 86400));        // any second of a 2-day window, any order
    std::string const& got = s->format_timestamp(static_cast<time_t>(t));
    // oracle: a fresh rendering of the same instant
    char ref[40]; tm ti;
#ifdef LOCALTZ
    localtime_r(reinterpret_cast<time_t*>(&t), &ti);
#else
    gmtime_r(reinterpret_cast<time_t*>(&t), &ti);
#endif
    size_t n = strftime(ref, sizeof(ref), PATTERN, &ti);
    VASSERT(got.size() == n);
    for (uint32_t k = 0; k < 24; k++) if (k < n && k < got.size()) VASSERT(got[k] == ref[k]);
    vobs(static_cast<uint64_t>(t));
  }
  VWITNESS(true);
}
