// C13 (reduced) — StringFromTime: the cached, incrementally patched time string equals a fresh rendering of the same
// instant, for any sequence of instants (increasing, repeated, going backwards), in GMT or a local zone.
//   REAL: StringFromTime::format_timestamp, _populate_pre_formatted_string_and_cached_indexes, _safe_strftime,
//         _next_noon_or_midnight_timestamp, _next_quarter_hour_timestamp (state exactly as init leaves it).
//   NOT run: _safe_strftime's buffer growing (hook vh_safe_strftime); init's pattern splitting (std::map, find/replace): the split parts are given by the query (concrete);
//   libfmt's format_to("{:02}" / "{:2}" / "{:10}") is replaced through an IR hook by a three-spec model (vh_fmt_u32 /
//   vh_fmt_i64) - libfmt rendering itself is outside the claim; libc broken-down time and strftime = rt/m_time.c.
#include "vh_nothrow.h"
#include "vh_noinline_quill.h"
#include "quill/backend/StringFromTime.h"
#include "quill/backend/TimestampFormatter.h"
#include "vh_noinline_end.h"
using namespace quill;
using namespace quill::detail;
extern "C" int64_t vll_tz_offset, vll_tz_dst_at, vll_tz_dst_delta;

#ifndef NCALLS
  #define NCALLS 3
#endif
#ifndef PARTS
  #define PARTS "%H", ":", "%M", ":", "%S"
  #define PATTERN "%H:%M:%S"
#endif
union SSlot { StringFromTime s; SSlot() {} ~SSlot() {} };
static SSlot g_s, g_s2;
// static storage for the vectors of the object under test (concrete addresses: nothing to merge, nothing to reallocate)
union PSlots { std::string s[8]; PSlots() {} ~PSlots() {} };
static PSlots g_ps;
static std::pair<size_t, StringFromTime::format_type> g_ixa[8], g_ixb[8];

// ---- model of the three libfmt specs the patching code uses: "{:02}" two digits zero padded, "{:2}" width 2 space
// padded (right aligned: numbers), "{:10}" width 10 space padded; values wider than the field are written in full
static char* put2(char* out, uint64_t v, char pad)
{
  VASSERT(v < 100);      // a wider value would overrun the two-character field of the cached string
  out[0] = v < 10 ? pad : static_cast<char>('0' + v / 10); out[1] = static_cast<char>('0' + v % 10);
  return out + 2;
}
static char* put10(char* out, uint64_t v)
{
  VASSERT(v >= 1000000000ull && v <= 9999999999ull);      // ten-digit epochs (property's bound); loop-free
  uint64_t hi = v / 100000, lo = v % 100000;
  out[0] = static_cast<char>('0' + hi / 10000); out[1] = static_cast<char>('0' + hi / 1000 % 10); out[2] = static_cast<char>('0' + hi / 100 % 10);
  out[3] = static_cast<char>('0' + hi / 10 % 10); out[4] = static_cast<char>('0' + hi % 10);
  out[5] = static_cast<char>('0' + lo / 10000); out[6] = static_cast<char>('0' + lo / 1000 % 10); out[7] = static_cast<char>('0' + lo / 100 % 10);
  out[8] = static_cast<char>('0' + lo / 10 % 10); out[9] = static_cast<char>('0' + lo % 10);
  return out + 10;
}
static char* fmt_spec(char* out, char const* f, size_t n, uint64_t v)
{
  if (n == 5 && f[2] == '0' && f[3] == '2') return put2(out, v, '0');
  if (n == 4 && f[2] == '2') return put2(out, v, ' ');
  if (n == 5 && f[2] == '1' && f[3] == '0') return put10(out, v);
  VASSERT(false);        // a spec outside the model
  return out;
}
extern "C" char* vh_fmt_u32(char** out, char const* f, size_t n, uint32_t* v) { return fmt_spec(*out, f, n, *v); }
extern "C" char* vh_fmt_i64(char** out, char const* f, size_t n, int64_t* v) { return fmt_spec(*out, f, n, static_cast<uint64_t>(*v)); }

// _safe_strftime (a std::vector<char> grown until strftime fits) is replaced through an IR hook: one 40-byte block
// filled by the strftime model (the bounded patterns render to < 40 characters; a longer rendering is reported)
extern "C" void vh_safe_strftime(std::vector<char>* ret, char const* fmt, int64_t ts, uint8_t tz)
{
  char* b = static_cast<char*>(::operator new(40));
  b[0] = 0;
  if (fmt[0] != 0)
  {
    tm ti; time_t t = static_cast<time_t>(ts);
    if (tz == static_cast<uint8_t>(Timezone::LocalTime)) localtime_r(&t, &ti); else gmtime_r(&t, &ti);
    size_t n = strftime(b, 40, fmt, &ti);
    VASSERT(n != 0);
  }
  new (ret) std::vector<char>();
  ret->_M_impl._M_start = b; ret->_M_impl._M_finish = b + 40; ret->_M_impl._M_end_of_storage = b + 40;
}

// ---- contract of _populate_pre_formatted_string_and_cached_indexes in plain C (no std::string / std::vector calls):
// cached instant, seconds of the day in the sink zone, the parts rendered one after the other, and the position and
// kind of every patchable field.  h_populate decides that the REAL function establishes exactly this state; h_sft then
// runs the REAL format_timestamp with the real function replaced by this contract (IR hook) - assume/guarantee.
using FT = StringFromTime::format_type;
static char const* const g_parts[] = {PARTS};
static void contract_populate(StringFromTime* s, int64_t ts)
{
  s->_cached_timestamp = static_cast<time_t>(ts);
  tm ti; time_t t = static_cast<time_t>(ts);
  if (s->_time_zone == Timezone::LocalTime) localtime_r(&t, &ti); else gmtime_r(&t, &ti);
  s->_cached_seconds = static_cast<uint32_t>(ti.tm_hour * 3600 + ti.tm_min * 60 + ti.tm_sec);
  char* out = s->_pre_formatted_ts.data();              // capacity reserved by the harness (40)
  size_t pos = s->_pre_formatted_ts.size();
  std::pair<size_t, FT>* ix = s->_cached_indexes._M_impl._M_finish;
  for (char const* part : g_parts)
  {
    char tmp[24];
    size_t n = strftime(tmp, sizeof(tmp), part, &ti);        // concrete for fixed-width parts, symbolic (6..9) for %A
    VASSERT(pos + n < 40);
    for (size_t k = 0; k < 12; k++) if (k < n) out[pos + k] = tmp[k];
    pos += n;
    if (part[0] == '%' && part[2] == 0)
    {
      char c = part[1]; int kind = c == 'H' ? 0 : c == 'M' ? 1 : c == 'S' ? 2 : c == 'I' ? 3 : c == 'k' ? 4 : c == 'l' ? 5 : c == 's' ? 6 : -1;
      if (kind >= 0) { ix->first = pos - (kind == 6 ? 10 : 2); ix->second = static_cast<FT>(kind); ix++; }
    }
  }
  out[pos] = 0; s->_pre_formatted_ts._M_string_length = pos;
  s->_cached_indexes._M_impl._M_finish = ix;
}
extern "C" void vh_populate(StringFromTime* s, int64_t ts) { contract_populate(s, ts); }

static void check_against_fresh(std::string const& got, int64_t t, char const* pattern, bool local)
{
  char ref[40]; tm ti;
  if (local) localtime_r(reinterpret_cast<time_t*>(&t), &ti); else gmtime_r(reinterpret_cast<time_t*>(&t), &ti);
  size_t n = strftime(ref, sizeof(ref), pattern, &ti);
  VASSERT(got.size() == n);
  VASSERT(n <= RLEN);                       // RLEN = maximum rendered length of the query's pattern (concrete per query)
  for (uint32_t k = 0; k < RLEN; k++) if (k < n && k < got.size()) VASSERT(got[k] == ref[k]);
}

static void set_storage(StringFromTime* s, std::pair<size_t, FT>* ix, bool parts)
{
  if (parts)
  {
    uint32_t n = 0;
    for (char const* p : g_parts) { new (&g_ps.s[n]) std::string(p); n++; }
    s->_initial_parts._M_impl._M_start = g_ps.s; s->_initial_parts._M_impl._M_finish = g_ps.s + n; s->_initial_parts._M_impl._M_end_of_storage = g_ps.s + 8;
  }
  s->_cached_indexes._M_impl._M_start = ix; s->_cached_indexes._M_impl._M_finish = ix; s->_cached_indexes._M_impl._M_end_of_storage = ix + 8;
  s->_pre_formatted_ts.reserve(40);
}

extern "C" void h_sft()
{
  StringFromTime* s = new (&g_s.s) StringFromTime();
  // the state init() leaves behind for this pattern
  set_storage(s, g_ixa, true);
  s->_timestamp_format = PATTERN;
#ifdef LOCALTZ
  bool const local = true;
  #ifdef TZANY
  vll_tz_offset = (static_cast<int64_t>(vnd_range(0, 112)) - 56) * 900;                 // -14h .. +14h in quarter hours
  #else
  { uint64_t z = vnd_range(0, 2); vll_tz_offset = z == 0 ? -18000 : z == 1 ? 19800 : 20700; }   // UTC-5, UTC+5:30, UTC+5:45
  #endif
#else
  bool const local = false;
  vll_tz_offset = 0;
#endif
  s->_time_zone = local ? Timezone::LocalTime : Timezone::GmtTime;
  s->_fallback_formatted.reserve(40);
  int64_t const base = 1000000000 - 1000000000 % 86400 + 86400;     // a midnight in 2001: ten-digit epochs
#ifdef DST
  // one daylight-saving transition somewhere in the window, at a quarter-hour instant, one hour forward or back
  vll_tz_dst_at = base + static_cast<int64_t>(vnd_range(0, WINDOW / 900)) * 900;
  vll_tz_dst_delta = vnd_bool() ? 3600 : -3600;
#endif
  for (uint32_t i = 0; i < NCALLS; i++)
  {
    int64_t t = base + static_cast<int64_t>(vnd_range(0, WINDOW - 1));     // any second of the window, any order
    std::string const& got = s->format_timestamp(static_cast<time_t>(t));
    check_against_fresh(got, t, PATTERN, local);
    vobs(static_cast<uint64_t>(t));
  }
  VWITNESS(true);
}

// the REAL _populate_pre_formatted_string_and_cached_indexes establishes exactly the contract state, for any instant
extern "C" void h_populate()
{
  StringFromTime* a = new (&g_s.s) StringFromTime();
  StringFromTime* b = new (&g_s2.s) StringFromTime();
#ifdef LOCALTZ
  vll_tz_offset = (static_cast<int64_t>(vnd_range(0, 112)) - 56) * 900;
  a->_time_zone = b->_time_zone = Timezone::LocalTime;
#else
  vll_tz_offset = 0;
  a->_time_zone = b->_time_zone = Timezone::GmtTime;
#endif
  set_storage(a, g_ixa, true); set_storage(b, g_ixb, false);
  int64_t const base = 1000000000 - 1000000000 % 86400 + 86400;
  int64_t t = base + static_cast<int64_t>(vnd_range(0, WINDOW - 1));
  a->_populate_pre_formatted_string_and_cached_indexes(static_cast<time_t>(t));
  contract_populate(b, t);
  VASSERT(a->_cached_timestamp == b->_cached_timestamp);
  VASSERT(a->_cached_seconds == b->_cached_seconds);
  VASSERT(a->_pre_formatted_ts.size() == b->_pre_formatted_ts.size());
  VASSERT(b->_pre_formatted_ts.size() <= RLEN);
  for (uint32_t k = 0; k < RLEN; k++) if (k < b->_pre_formatted_ts.size()) VASSERT(a->_pre_formatted_ts.size() > k && a->_pre_formatted_ts[k] == b->_pre_formatted_ts[k]);
  VASSERT(a->_cached_indexes.size() == b->_cached_indexes.size());
  for (uint32_t k = 0; k < 8; k++) if (k < b->_cached_indexes.size()) { VASSERT(a->_cached_indexes[k].first == b->_cached_indexes[k].first); VASSERT(a->_cached_indexes[k].second == b->_cached_indexes[k].second); }
  vobs(static_cast<uint64_t>(t));
  VWITNESS(true);
}
