// C12 (multi-line clause) and C16 (per-sink loop): the real BackendWorker::_dispatch_transit_event_to_sinks,
// _process_multi_line_message and _write_log_statement on one event; observation through irpass hooks.
#include "bk.h"
extern "C" uint32_t vh_fault(uint32_t) { return 0; }

#ifndef MLEN
  #define MLEN 4
#endif
union FBSlot { TransitEvent::FormatBuffer b; FBSlot() {} ~FBSlot() {} };
static FBSlot g_fb;
union TE1 { TransitEvent e; TE1() {} ~TE1() {} };
static TE1 g_te;

struct Call { int64_t off; uint64_t len; };
static Call g_calls[MLEN + 3]; static uint32_t g_ncalls;
static char const* g_msg_base;

// hook for BackendWorker::_write_log_statement (same signature, see props: -r)
extern "C" void vh_write_stmt(BackendWorker const*, TransitEvent const& te, std::string_view const& tid, std::string_view const& tname,
                              std::string_view const&, std::string_view const&, std::string_view const& msg)
{
  VASSERT(&te == &g_te.e);
  VASSUME(g_ncalls < MLEN + 3);
  bool inside = msg.data() >= g_msg_base && msg.data() <= g_msg_base + MLEN;      // a view outside the message buffer is recorded as -1
  g_calls[g_ncalls].off = inside ? msg.data() - g_msg_base : -1; g_calls[g_ncalls].len = msg.size(); g_ncalls++;
  vobs(static_cast<uint64_t>(g_calls[g_ncalls - 1].off)); vobs(msg.size());
}

extern "C" void h_multiline()
{
  bk_init_backend_light();
  bk_init_sink(0);
  L* l = bk_init_logger(0, 1);
  bool add_meta = vnd_bool();
  g_pf.p._options.add_metadata_to_multi_line_logs = add_meta;
  // message: MLEN symbolic bytes over { 'a', '\n' } in a REAL libfmt memory buffer
  char m[MLEN];
  for (uint32_t i = 0; i < MLEN; i++) m[i] = vnd_bool() ? '\n' : 'a';
  TransitEvent::FormatBuffer* fb = new (&g_fb.b) TransitEvent::FormatBuffer();
  fb->append(m, m + MLEN);
  TransitEvent& te = g_te.e;
  te.timestamp = 5; te.macro_metadata = &MD_LOG; te.logger_base = l; te.flush_flag = nullptr; te.dynamic_log_level = LogLevel::None;
  *reinterpret_cast<TransitEvent::FormatBuffer**>(&te.formatted_msg) = fb;
  *reinterpret_cast<void**>(&te.named_args) = nullptr;
  g_msg_base = fb->data();
  std::string_view tid{"1"}, tn{"t"};
  bw()._dispatch_transit_event_to_sinks(te, tid, tn);
  if (!add_meta)
  {
    // one statement, at most ONE trailing newline removed
    VASSERT(g_ncalls == 1); VASSERT(g_calls[0].off == 0);
    VASSERT(g_calls[0].len == (m[MLEN - 1] == '\n' ? MLEN - 1 : MLEN));
  }
  else
  {
    // reference: pieces between newlines; a final newline does not open another (empty) line
    uint32_t n = 0; int64_t start = 0;
    for (uint32_t i = 0; i <= MLEN; i++)
      if (i == MLEN || m[i] == '\n')
      {
        if (i == MLEN && start == MLEN) break;          // message ended with '\n'
        VASSERT(n < g_ncalls);
        if (n < g_ncalls) { VASSERT(g_calls[n].off == start); VASSERT(g_calls[n].len == static_cast<uint64_t>(i - start)); }
        n++; start = i + 1;
      }
    VASSERT(g_ncalls == n);                              // one complete line per message line, nothing else
  }
  VWITNESS(add_meta && g_ncalls >= 2);
}

// ---- C16: per-sink loop of the real _write_log_statement: each sink gets the line from ITS override formatter if it has
// one, else the logger's; threshold and filters per sink (hook on PatternFormatter::format tells the formatters apart)
static PSlot g_pf_over;
extern "C" std::string_view vh_pf_format(PatternFormatter* self, uint64_t, std::string_view, std::string_view, std::string_view,
                                         std::string_view, std::string_view, std::string_view, MacroMetadata const&,
                                         std::vector<std::pair<std::string, std::string>> const*, std::string_view)
{
  // the logger's formatter renders a 1-byte line, the override formatter a 2-byte line
  return self == &g_pf.p ? std::string_view{"L", 1} : std::string_view{"OO", 2};
}
struct LenSink : Sink
{
  uint8_t id; uint64_t got_len; uint32_t calls;
  void write_log(MacroMetadata const*, uint64_t, std::string_view, std::string_view, std::string const&, std::string_view, LogLevel,
                 std::string_view, std::string_view, std::vector<std::pair<std::string, std::string>> const*, std::string_view,
                 std::string_view log_statement) override { calls++; got_len = log_statement.size(); }
  void flush_sink() override {}
};
union LS { LenSink s; LS() {} ~LS() {} };
static LS g_ls0, g_ls1;

extern "C" void h_per_sink()
{
  bk_init_backend_light(); new (&g_bw.b._process_id) std::string("42");
  LenSink* s0 = new (&g_ls0.s) LenSink(); LenSink* s1 = new (&g_ls1.s) LenSink(); s0->id = 0; s1->id = 1; s0->calls = s1->calls = 0;
  L* l = logger_at(0);
  memset(static_cast<void*>(l), 0, sizeof(L));
  new (&l->sinks) std::vector<std::shared_ptr<Sink>>(); l->sinks.reserve(2);
  l->sinks.push_back(std::shared_ptr<Sink>(s0, nodel<Sink>)); l->sinks.push_back(std::shared_ptr<Sink>(s1, nodel<Sink>));
  new (&l->logger_name) std::string("l0");
  new (&l->pattern_formatter) std::shared_ptr<PatternFormatter>(&g_pf.p, nodel<PatternFormatter>);
  // which sinks carry an override pattern (any of the four combinations); their formatter object already exists
  bool o0 = vnd_bool(), o1 = vnd_bool();
  if (o0) { s0->_override_pattern_formatter_options.emplace(); new (&s0->_override_pattern_formatter) std::shared_ptr<PatternFormatter>(&g_pf_over.p, nodel<PatternFormatter>); }
  if (o1) { s1->_override_pattern_formatter_options.emplace(); new (&s1->_override_pattern_formatter) std::shared_ptr<PatternFormatter>(&g_pf_over.p, nodel<PatternFormatter>); }
  LogLevel t0 = static_cast<LogLevel>(vnd_range(0, 10)), t1 = static_cast<LogLevel>(vnd_range(0, 10));
  s0->set_log_level_filter(t0); s1->set_log_level_filter(t1);
  static constexpr MacroMetadata md_dyn{"f:2", "fn", "x", nullptr, LogLevel::Dynamic, MacroMetadata::Event::Log};
  TransitEvent& te = g_te.e;
  LogLevel lv = static_cast<LogLevel>(vnd_range(0, 8));
  te.timestamp = 5; te.macro_metadata = &md_dyn; te.logger_base = l; te.flush_flag = nullptr; te.dynamic_log_level = lv;
  *reinterpret_cast<void**>(&te.named_args) = nullptr;
  std::string_view tid{"1"}, tn{"t"}, d{"D"}, c{"C"}, msg{"m"};
  bw()._write_log_statement(te, tid, tn, d, c, msg);
  // sink i written iff level >= its threshold, independently of the other sink ...
  VASSERT(s0->calls == (lv >= t0 ? 1u : 0u));
  VASSERT(s1->calls == (lv >= t1 ? 1u : 0u));
  // ... and each sink receives the line of ITS OWN override formatter if it has one, else the logger's
  if (s0->calls) VASSERT(s0->got_len == (o0 ? 2u : 1u));
  if (s1->calls) VASSERT(s1->got_len == (o1 ? 2u : 1u));
  VWITNESS(o0 && !o1 && s0->calls == 1 && s1->calls == 1);
}
