// C19 — named arguments: the compile-time detector MacroMetadata::_contains_named_args on every short template.
#include "vh_nothrow.h"
#include "quill/core/MacroMetadata.h"
using namespace quill;

#ifndef LEN
  #define LEN 8
#endif
static char const ALPHA[6] = {'{', '}', 'a', '1', ':', ' '};

// Independent reference: a small state machine for libfmt's template grammar (the documented precondition of a
// log statement is a valid fmt template).  text := ( '{{' | '}}' | other | field )* ;  field := '{' id? (':' spec)? '}'
// with id = identifier or digits, spec without braces.  Returns validity; *named = some field has an identifier id.
static bool ref_parse(char const* s, uint32_t n, bool* named)
{
  *named = false;
  uint32_t i = 0;
  while (i < n)
  {
    char c = s[i];
    if (c == '{')
    {
      if (i + 1 < n && s[i + 1] == '{') { i += 2; continue; }
      // replacement field
      uint32_t j = i + 1;
      bool id_alpha = false, id_digit = false;
      if (j < n && s[j] == 'a') { id_alpha = true; while (j < n && (s[j] == 'a' || s[j] == '1')) j++; }
      else if (j < n && s[j] == '1') { id_digit = true; while (j < n && s[j] == '1') j++; }
      if (j < n && s[j] == ':') { j++; while (j < n && s[j] != '}' && s[j] != '{') j++; }
      if (!(j < n && s[j] == '}')) return false;
      if (id_alpha) *named = true;
      (void)id_digit;
      i = j + 1;
    }
    else if (c == '}')
    {
      if (i + 1 < n && s[i + 1] == '}') { i += 2; continue; }
      return false;
    }
    else i++;
  }
  return true;
}

extern "C" void h_detector()
{
  char buf[LEN + 1];
  const uint32_t n = LEN;             // concrete length per query (all lengths 0..max are separate queries)
  for (uint32_t i = 0; i < LEN; i++) buf[i] = ALPHA[vnd_range(0, 5)];
  buf[LEN] = 0;
  bool named = false;
  bool valid = ref_parse(buf, n, &named);
  VASSUME(valid);
  bool got = MacroMetadata::_contains_named_args(std::string_view{buf, n});
  for (uint32_t i = 0; i < LEN; i++) vobs(static_cast<uint64_t>(buf[i]));
  VASSERT(got == named);
  VWITNESS(named && buf[0] == '{' && buf[1] == '{');
}
