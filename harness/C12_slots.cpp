// C12 — PatternFormatter::format fills, for the attributes used by the pattern (ANY subset), the argument slot of each
// attribute with THIS statement's value: time, file, function, level name and short code, line, logger, path, thread id
// and name, process id, source location forms, tags, named args ("k: v, k2: v2", empty when the statement has none),
// message - on every call, nothing left over from the previous statement.
//   REAL: PatternFormatter::format, _set_arg_val, the libfmt value constructors and memory-buffer appends.
//   HOOKS: TimestampFormatter::format_timestamp (C13), fmtquill::vformat_to (libfmt rendering: outside the claim).
//   The object is laid out directly (the pattern rewrite in the constructor is outside the claim); slot order reversed.
#include "vh_nothrow.h"
#include "vh_noinline_quill.h"
#include "quill/backend/PatternFormatter.h"
#include "vh_noinline_end.h"
using namespace quill;
using PF = PatternFormatter;
#ifndef N1
  #define N1 2
#endif
#ifndef SECOND_HAS
  #define SECOND_HAS false
#endif
using Val = fmtquill::detail::value<fmtquill::format_context>;

union PSlot { PF p; PSlot() {} ~PSlot() {} };
static PSlot g_p;
static uint64_t g_ts_seen; static uint32_t g_vf_calls;
extern "C" std::string_view vh_ts_format(detail::TimestampFormatter*, int64_t ns) { g_ts_seen = static_cast<uint64_t>(ns); return ns == 111 ? std::string_view{"T1"} : std::string_view{"T2"}; }
using MB = fmtquill::basic_memory_buffer<char, 512>;
extern "C" MB* vh_vformat_to(std::back_insert_iterator<MB>* out, char const*, size_t, uint64_t, Val*) { g_vf_calls++; return *reinterpret_cast<MB**>(out); }

union NAStore { std::pair<std::string, std::string> e[2]; NAStore() {} ~NAStore() {} };
static NAStore g_na;
static void set1(std::string& s, char c) { s._M_dataplus._M_p = s._M_local_buf; s._M_local_buf[0] = c; s._M_local_buf[1] = 0; s._M_string_length = 1; }

static Val& slot(PF* p, uint32_t attr) { return *reinterpret_cast<Val*>(&p->_args[p->_order_index[attr]]); }
static void expect_sv(PF* p, uint32_t mask, uint32_t attr, std::string_view v)
{
  if (!(mask & (1u << attr))) return;
  Val& x = slot(p, attr);
  VASSERT(x.string.size == v.size());
  VASSERT(x.string.data == v.data());                 // a view of this statement's own value, no copy of an older one
}
static void expect_cstr(PF* p, uint32_t mask, uint32_t attr, char const* v)
{
  if (!(mask & (1u << attr))) return;
  VASSERT(slot(p, attr).string.data == v);
}

static void one_call(PF* p, uint32_t mask, uint64_t ts, MacroMetadata const& md, std::vector<std::pair<std::string, std::string>> const* na,
                     std::string_view tid, std::string_view tname, std::string_view pid, std::string_view lg, std::string_view lvl, std::string_view sc, std::string_view msg,
                     uint32_t na_len)
{
  uint32_t before = g_vf_calls;
  (void)p->format(ts, tid, tname, pid, lg, lvl, sc, md, na, msg);
  VASSERT(g_vf_calls == before + 1);
  if (mask & (1u << PF::Time)) { VASSERT(g_ts_seen == ts); Val& x = slot(p, PF::Time); VASSERT(x.string.size == 2 && x.string.data[0] == 'T' && x.string.data[1] == (ts == 111 ? '1' : '2')); }
  expect_sv(p, mask, PF::FileName, md.file_name());
  expect_cstr(p, mask, PF::CallerFunction, md.caller_function());
  expect_sv(p, mask, PF::LogLevel, lvl);
  expect_sv(p, mask, PF::LogLevelShortCode, sc);
  expect_cstr(p, mask, PF::LineNumber, md.line());
  expect_sv(p, mask, PF::Logger, lg);
  expect_sv(p, mask, PF::FullPath, md.full_path());
  expect_sv(p, mask, PF::ThreadId, tid);
  expect_sv(p, mask, PF::ThreadName, tname);
  expect_sv(p, mask, PF::ProcessId, pid);
  expect_cstr(p, mask, PF::SourceLocation, md.source_location());
  expect_sv(p, mask, PF::ShortSourceLocation, md.short_source_location());
  expect_sv(p, mask, PF::Message, msg);
  if (mask & (1u << PF::Tags)) { Val& x = slot(p, PF::Tags); if (md.tags()) { VASSERT(x.string.data == md.tags() && x.string.size == strlen(md.tags())); } else VASSERT(x.string.size == 0); }
  if (mask & (1u << PF::NamedArgs))
  {
    Val& x = slot(p, PF::NamedArgs);
    VASSERT(x.string.size == na_len);                  // "k: v, q: w" / "k: v" / nothing
    if (na_len >= 4) VASSERT(x.string.data[0] == 'k' && x.string.data[1] == ':' && x.string.data[2] == ' ' && x.string.data[3] == 'v');
    if (na_len == 10) VASSERT(x.string.data[4] == ',' && x.string.data[5] == ' ' && x.string.data[6] == 'q' && x.string.data[7] == ':' && x.string.data[8] == ' ' && x.string.data[9] == 'w');
  }
}

extern "C" void h_slots()
{
  PF* p = &g_p.p;
  new (&p->_options) PatternFormatterOptions();
  set1(p->_options.format_pattern, 'x');                                    // a non-empty pattern
  new (&p->_fmt_format) std::string();
  for (uint32_t i = 0; i < PF::ATTR_NR_ITEMS; i++) p->_order_index[i] = PF::ATTR_NR_ITEMS - 1 - i;
  uint32_t mask = static_cast<uint32_t>(vnd_u64() & 0xffff);                 // ANY subset of the 16 attributes
  *reinterpret_cast<unsigned long*>(&p->_is_set_in_pattern) = mask;
  new (&p->_formatted_log_message_buffer) fmtquill::basic_memory_buffer<char, 512>();
  new (&p->_formatted_named_args_buffer) fmtquill::basic_memory_buffer<char, 512>();
  static MacroMetadata const md1{"dir/f.cpp:12", "fn1", "m {}", "tg", LogLevel::Info, MacroMetadata::Event::Log};
  static MacroMetadata const md2{"g.cpp:7", "fn2", "n {}", nullptr, LogLevel::Error, MacroMetadata::Event::Log};
  new (&g_na.e[0].first) std::string(); new (&g_na.e[0].second) std::string(); new (&g_na.e[1].first) std::string(); new (&g_na.e[1].second) std::string();
  set1(g_na.e[0].first, 'k'); set1(g_na.e[0].second, 'v'); set1(g_na.e[1].first, 'q'); set1(g_na.e[1].second, 'w');
  std::vector<std::pair<std::string, std::string>> na;
  uint32_t const n1 = N1;                                                     // first statement: N1 named arguments (concrete per query)
  na._M_impl._M_start = g_na.e; na._M_impl._M_finish = g_na.e + n1; na._M_impl._M_end_of_storage = g_na.e + 2;
  bool const second_has = SECOND_HAS;
  one_call(p, mask, 111, md1, &na, "11", "tA", "900", "lgA", "INFO", "I", "hello", n1 == 0 ? 0 : n1 == 1 ? 4 : 10);
  // the next statement through the same formatter: other values everywhere; named args absent (never-used slot: null) or one pair
  na._M_impl._M_finish = g_na.e + 1;
  one_call(p, mask, 222, md2, second_has ? &na : nullptr, "22", "tB", "901", "lgB", "ERROR", "E", "bye", second_has ? 4 : 0);
  vobs(mask); vobs(n1); vobs(second_has);
  VWITNESS(mask == 0xffff);
  na._M_impl._M_start = nullptr; na._M_impl._M_finish = nullptr; na._M_impl._M_end_of_storage = nullptr;
}
