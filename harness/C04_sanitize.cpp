// C04 — the configured non-printable-character sanitisation (default check_printable_char), real
// BackendWorker::sanitize_non_printable_chars on every short byte string.
#include "vh_nothrow.h"
#include "quill/backend/BackendWorker.h"
using namespace quill;
using namespace quill::detail;

#ifndef SLEN
  #define SLEN 4
#endif
union OSlot { BackendOptions o; OSlot() {} ~OSlot() {} };
static OSlot g_o;

extern "C" void h_sanitize()
{
  BackendOptions* o = new (&g_o.o) BackendOptions();        // real defaults (incl. the default check_printable_char)
  char in[SLEN]; uint32_t n = SLEN;
  for (uint32_t i = 0; i < SLEN; i++) in[i] = static_cast<char>(vnd_range(0, 255));
  std::string s(in, n);
  BackendWorker::sanitize_non_printable_chars(s, *o);
  // reference: printable = ' '..'~' or '\n'; anything else -> \xHH (upper-case hex)
  char ref[4 * SLEN + 1]; uint32_t m = 0;
  for (uint32_t i = 0; i < SLEN; i++)
  {
    unsigned char c = static_cast<unsigned char>(in[i]);
    if ((c >= ' ' && c <= '~') || c == '\n') ref[m++] = static_cast<char>(c);
    else { ref[m++] = '\\'; ref[m++] = 'x'; ref[m++] = "0123456789ABCDEF"[c >> 4]; ref[m++] = "0123456789ABCDEF"[c & 15]; }
  }
  VASSERT(s.size() == m);
  for (uint32_t i = 0; i < 4 * SLEN; i++) if (i < m && i < s.size()) VASSERT(s[i] == ref[i]);
  for (uint32_t i = 0; i < SLEN; i++) vobs(static_cast<unsigned char>(in[i]));
  VWITNESS(m == SLEN + 6);
}
