// C15 — time rotation: the REAL RotatingSink<FileSink>::_calculate_initial_rotation_tp, _time_rotation and
// _calculate_rotation_tp; _rotate_files (file system) is observed through an IR hook; libc broken-down time = rt/m_time.c.
#include "vh_nothrow.h"
#include "vh_noinline_quill.h"
#include "quill/sinks/RotatingSink.h"
#include "quill/sinks/FileSink.h"
#include "vh_noinline_end.h"
using namespace quill;
extern "C" int64_t vll_tz_offset;

using RS = RotatingSink<FileSink>;
union RSSlot { RS s; RSSlot() {} ~RSSlot() {} };
static RSSlot g_rs;
static uint32_t g_rot; static uint64_t g_rot_ts[8];
extern "C" void vh_rotate_files(RS*, uint64_t ts) { if (g_rot < 8) g_rot_ts[g_rot] = ts; g_rot++; vobs(ts); }

#ifndef NSTMT
  #define NSTMT 3
#endif
static constexpr uint64_t NS = 1000000000ull;

extern "C" void h_time_rotation()
{
  RS* s = &g_rs.s;
  RotatingFileSinkConfig* cfg = &s->_config;
  // configuration: frequency, interval, daily time, zone - all symbolic
#ifdef FREQ
  uint64_t freq = FREQ;                     // concrete per query
#else
  uint64_t freq = vnd_range(1, 3);          // 1 Daily, 2 Hourly, 3 Minutely
#endif
  uint32_t interval = static_cast<uint32_t>(vnd_range(1, 3));
  uint64_t hh = vnd_range(0, 23), mm = vnd_range(0, 59);
#ifdef GMTONLY
  bool gmt = true;
#elif defined(LOCALONLY)
  bool gmt = false;
#else
  bool gmt = vnd_bool();
#endif
#ifdef TZSET
  { uint64_t z = vnd_range(0, 2); vll_tz_offset = gmt ? 0 : (z == 0 ? -18000 : z == 1 ? 19800 : 20700); }   // UTC-5, UTC+5:30, UTC+5:45
#else
  vll_tz_offset = gmt ? 0 : (static_cast<int64_t>(vnd_range(0, 112)) - 56) * 900;     // -14h .. +14h in quarter hours
#endif
  cfg->_rotation_frequency = static_cast<RotatingFileSinkConfig::RotationFrequency>(freq);
  cfg->_rotation_interval = freq == 1 ? 0 : interval;
  cfg->_daily_rotation_time = std::make_pair(std::chrono::hours{static_cast<int64_t>(hh)}, std::chrono::minutes{static_cast<int64_t>(mm)});
  cfg->_time_zone = gmt ? Timezone::GmtTime : Timezone::LocalTime;
  // start instant: any second of a 4-day window (plus sub-second part)
  uint64_t t0s = vnd_range(86400, 5 * 86400 - 1); uint64_t t0 = t0s * NS + vnd_range(0, NS - 1);
  uint64_t first = RS::_calculate_initial_rotation_tp(t0, *cfg);
  // ---- oracle for the FIRST scheduled point: the next minute / hour boundary, or the next HH:MM, in the sink's zone,
  // strictly after the start second
  int64_t off = vll_tz_offset;
  int64_t lt = static_cast<int64_t>(t0s) + off;                       // local seconds
  int64_t p;
  if (freq == 3) p = (lt / 60 + 1) * 60;
  else if (freq == 2) p = (lt / 3600 + 1) * 3600;
  else { int64_t day = lt / 86400; p = day * 86400 + static_cast<int64_t>(hh) * 3600 + static_cast<int64_t>(mm) * 60; if (p <= lt) p += 86400; }
  VASSERT(first == static_cast<uint64_t>(p - off) * NS);
  VASSERT(first > t0s * NS);
  // ---- statements with non-decreasing timestamps (dense or with gaps of several periods) through the real _time_rotation
  s->_next_rotation_time = first;
  uint64_t unit = (freq == 3 ? 60ull * interval : freq == 2 ? 3600ull * interval : 86400ull) * NS;
  uint64_t next = first, ts = t0;
  for (uint32_t i = 0; i < NSTMT; i++)
  {
    uint64_t d = vnd_range(0, 3 * unit + NS);                         // dense, or gaps of up to three whole periods (stated bound)
    ts += d;
    uint32_t before = g_rot;
    bool rotated = s->_time_rotation(ts);
    // a statement at or after the next scheduled point is never appended to the file that was open before that point;
    // no rotation otherwise
    VASSERT(rotated == (ts >= next));
    VASSERT(g_rot == before + (rotated ? 1u : 0u));
    if (rotated)
    {
      VASSERT(g_rot_ts[before] == ts);                                 // the new file is named after the statement that opened it
      // the schedule stays on the configured points: next point = first point of the grid (first + k periods) after ts
      while (next <= ts) next += unit;
    }
    VASSERT(s->_next_rotation_time == next);
  }
  VWITNESS(g_rot >= 1);
}

// ---- C14 (rotation decision and size accounting only): the REAL RotatingSink<FileSink>::write_log with _time_rotation /
// _size_rotation; _rotate_files (renames, backup limit, file system) and the base write are hooks.  The _rotate_files hook
// behaves like the real one at its two exits: it either refuses (backup limit without overwrite / empty file) and changes
// nothing, or opens a fresh file (size 0).
static bool g_rot_refuse; static uint32_t g_writes; static uint64_t g_wsize[8]; static uint64_t g_file_at_write[8];
extern "C" void vh_rotate_files14(RS* s, uint64_t ts)
{
  if (g_rot < 8) g_rot_ts[g_rot] = ts; g_rot++;
  g_rot_refuse = vnd_bool();
  if (!g_rot_refuse) s->_file_size = 0;
}
extern "C" void vh_base_write(StreamSink* self, MacroMetadata const*, uint64_t, std::string_view, std::string_view, std::string const&, std::string_view,
                              LogLevel, std::string_view, std::string_view, std::vector<std::pair<std::string, std::string>> const*, std::string_view,
                              std::string_view stmt)
{
  if (g_writes < 8) { g_wsize[g_writes] = stmt.size(); g_file_at_write[g_writes] = static_cast<RS*>(static_cast<FileSink*>(self))->_file_size; }
  g_writes++;
}
extern "C" void h_size_rotation()
{
  RS* s = &g_rs.s;
  RotatingFileSinkConfig* cfg = &s->_config;
  uint64_t maxsz = vnd_range(512, 4096);
  cfg->_rotation_max_file_size = maxsz;
  bool timed = vnd_bool();
  cfg->_rotation_frequency = timed ? RotatingFileSinkConfig::RotationFrequency::Hourly : RotatingFileSinkConfig::RotationFrequency::Disabled;
  cfg->_rotation_interval = 1;
  s->_is_null = false;
  uint64_t next = vnd_range(1, 1ull << 40); s->_next_rotation_time = next;
  uint64_t fsz = vnd_range(0, 4096); s->_file_size = fsz;        // what the open file already holds
  VASSUME(fsz <= maxsz);
  uint64_t ghost = fsz; uint64_t ts = 0; std::string pid{"1"};
  char buf[1] = {'x'};
  for (uint32_t i = 0; i < NSTMT; i++)
  {
    uint64_t n = vnd_range(1, 8192);                                // statement size, possibly larger than the limit
    ts += vnd_range(0, 1ull << 39);
    uint32_t rot_before = g_rot, w_before = g_writes;
    bool time_due = timed && ts >= s->_next_rotation_time;
    bool size_due = !time_due && ghost + n > maxsz;
    s->RS::write_log(nullptr, ts, "1", "t", pid, "l", LogLevel::Info, "I", "I", nullptr, "m", std::string_view{buf, n});
    // every statement is written whole, exactly once, after at most one rotation request
    VASSERT(g_writes == w_before + 1 && g_wsize[w_before] == n);
    VASSERT(g_rot - rot_before == ((time_due || size_due) ? 1u : 0u));        // rotation requested exactly when due
    bool rotated = (time_due || size_due) && !g_rot_refuse;
    if (rotated) ghost = 0;
    VASSERT(g_file_at_write[w_before] == ghost);                               // the statement goes to the file the rotation opened
    // no file exceeds the limit unless a single statement alone does, or rotation was legitimately refused
    if (!(time_due || size_due) || rotated) VASSERT(ghost + n <= maxsz || ghost == 0);
    ghost += n;
    VASSERT(s->_file_size == ghost);
  }
  VWITNESS(g_rot >= 2);
}
