// C15 — time rotation: the REAL RotatingSink<FileSink>::_calculate_initial_rotation_tp, _time_rotation and
// _calculate_rotation_tp; _rotate_files (file system) is observed through an IR hook; libc broken-down time = rt/m_time.c.
#include "vh_nothrow.h"
#include "vh_noinline_quill.h"
#include "quill/sinks/RotatingSink.h"
#include "quill/sinks/FileSink.h"
#include "vh_noinline_end.h"
using namespace quill;
extern "C" int64_t vll_tz_offset;

using RS = RotatingSink<FileSink>;
union RSSlot { RS s; RSSlot() {} ~RSSlot() {} };
static RSSlot g_rs;
static uint32_t g_rot; static uint64_t g_rot_ts[8];
extern "C" void vh_rotate_files(RS*, uint64_t ts) { if (g_rot < 8) g_rot_ts[g_rot] = ts; g_rot++; vobs(ts); }

#ifndef NSTMT
  #define NSTMT 3
#endif
static constexpr uint64_t NS = 1000000000ull;

extern "C" void h_time_rotation()
{
  RS* s = &g_rs.s;
  RotatingFileSinkConfig* cfg = &s->_config;
  // configuration: frequency, interval, daily time, zone - all symbolic
#ifdef FREQ
  uint64_t freq = FREQ;                     // concrete per query
#else
  uint64_t freq = vnd_range(1, 3);          // 1 Daily, 2 Hourly, 3 Minutely
#endif
  uint32_t interval = static_cast<uint32_t>(vnd_range(1, 3));
  uint64_t hh = vnd_range(0, 23), mm = vnd_range(0, 59);
#ifdef GMTONLY
  bool gmt = true;
#elif defined(LOCALONLY)
  bool gmt = false;
#else
  bool gmt = vnd_bool();
#endif
#ifdef TZSET
  { uint64_t z = vnd_range(0, 2); vll_tz_offset = gmt ? 0 : (z == 0 ? -18000 : z == 1 ? 19800 : 20700); }   // UTC-5, UTC+5:30, UTC+5:45
#else
  vll_tz_offset = gmt ? 0 : (static_cast<int64_t>(vnd_range(0, 112)) - 56) * 900;     // -14h .. +14h in quarter hours
#endif
  cfg->_rotation_frequency = static_cast<RotatingFileSinkConfig::RotationFrequency>(freq);
  cfg->_rotation_interval = freq == 1 ? 0 : interval;
  cfg->_daily_rotation_time = std::make_pair(std::chrono::hours{static_cast<int64_t>(hh)}, std::chrono::minutes{static_cast<int64_t>(mm)});
  cfg->_time_zone = gmt ? Timezone::GmtTime : Timezone::LocalTime;
  // start instant: any second of a 4-day window (plus sub-second part)
  uint64_t t0s = vnd_range(86400, 5 * 86400 - 1); uint64_t t0 = t0s * NS + vnd_range(0, NS - 1);
  uint64_t first = RS::_calculate_initial_rotation_tp(t0, *cfg);
  // ---- oracle for the FIRST scheduled point: the next minute / hour boundary, or the next HH:MM, in the sink's zone,
  // strictly after the start second
  int64_t off = vll_tz_offset;
  int64_t lt = static_cast<int64_t>(t0s) + off;                       // local seconds
  int64_t p;
  if (freq == 3) p = (lt / 60 + 1) * 60;
  else if (freq == 2) p = (lt / 3600 + 1) * 3600;
  else { int64_t day = lt / 86400; p = day * 86400 + static_cast<int64_t>(hh) * 3600 + static_cast<int64_t>(mm) * 60; if (p <= lt) p += 86400; }
  VASSERT(first == static_cast<uint64_t>(p - off) * NS);
  VASSERT(first > t0s * NS);
  // ---- statements with non-decreasing timestamps (dense or with gaps of several periods) through the real _time_rotation
  s->_next_rotation_time = first;
  uint64_t unit = (freq == 3 ? 60ull * interval : freq == 2 ? 3600ull * interval : 86400ull) * NS;
  uint64_t next = first, ts = t0;
  for (uint32_t i = 0; i < NSTMT; i++)
  {
    uint64_t d = vnd_range(0, 3 * unit + NS);                         // dense, or gaps of up to three whole periods (stated bound)
    ts += d;
    uint32_t before = g_rot;
    bool rotated = s->_time_rotation(ts);
    // a statement at or after the next scheduled point is never appended to the file that was open before that point;
    // no rotation otherwise
    VASSERT(rotated == (ts >= next));
    VASSERT(g_rot == before + (rotated ? 1u : 0u));
    if (rotated)
    {
      VASSERT(g_rot_ts[before] == ts);                                 // the new file is named after the statement that opened it
      // the schedule stays on the configured points: next point = first point of the grid (first + k periods) after ts
      while (next <= ts) next += unit;
    }
    VASSERT(s->_next_rotation_time == next);
  }
  VWITNESS(g_rot >= 1);
}
