// C16 — a statement reaches a sink iff its level passes logger level, sink threshold and every sink filter.
#include "vh_nothrow.h"
#include "quill/LogMacros.h"
#include "quill/core/LoggerBase.h"
#include "quill/sinks/Sink.h"
#include "quill/filters/Filter.h"
#include "quill/backend/TransitEvent.h"
using namespace quill;
using namespace quill::detail;

// ---------- (a) call site: the REAL macros and the REAL LoggerBase level test; log_statement is a recorder
struct RecLogger : LoggerBase
{
  template <bool immediate_flush, bool has_dynamic_log_level, typename... Args>
  bool log_statement(LogLevel dynamic_log_level, MacroMetadata const* md, Args&&...)
  {
    calls++; last_dynamic = dynamic_log_level; last_md = md; return true;
  }
  uint32_t calls; LogLevel last_dynamic; MacroMetadata const* last_md;
};
union LoggerSlot { RecLogger l; LoggerSlot() {} ~LoggerSlot() {} };
static LoggerSlot g_lslot;
static uint32_t g_evals;
static int arg_expr() { g_evals++; return 7; }

#define CASE(LV, MACRO)                                                                            \
  case static_cast<int>(LogLevel::LV):                                                             \
    MACRO(logger, "v {}", arg_expr());                                                             \
    expect = LogLevel::LV >= ll;                                                                   \
    if (logger->calls) { VASSERT(logger->last_md->log_level() == LogLevel::LV); VASSERT(logger->last_dynamic == LogLevel::None); } \
    break;

extern "C" void h_callsite()
{
  RecLogger* logger = &g_lslot.l;
  logger->calls = 0;
  // logger level: anything set_log_level accepts (every level but Backtrace), through the real setter
  uint8_t lraw = static_cast<uint8_t>(vnd_range(0, 10));
  LogLevel ll = static_cast<LogLevel>(lraw);
  vll_fatal_ok = (ll == LogLevel::Backtrace);
  logger->set_log_level(ll);
  vll_fatal_ok = 0;
  VASSERT(ll != LogLevel::Backtrace);
  VASSERT(logger->get_log_level() == ll);
  bool expect = false;
  uint64_t which = vnd_range(0, 10);
  switch (which)
  {
    CASE(TraceL3, QUILL_LOG_TRACE_L3) CASE(TraceL2, QUILL_LOG_TRACE_L2) CASE(TraceL1, QUILL_LOG_TRACE_L1)
    CASE(Debug, QUILL_LOG_DEBUG) CASE(Info, QUILL_LOG_INFO) CASE(Notice, QUILL_LOG_NOTICE)
    CASE(Warning, QUILL_LOG_WARNING) CASE(Error, QUILL_LOG_ERROR) CASE(Critical, QUILL_LOG_CRITICAL)
    case 9:
    {
      QUILL_LOG_BACKTRACE(logger, "v {}", arg_expr());
      expect = LogLevel::Backtrace >= ll;
      if (logger->calls) VASSERT(logger->last_md->log_level() == LogLevel::Backtrace);
      break;
    }
    default:
    {
      // dynamic level: any of the nine ordinary levels supplied at run time
      LogLevel dl = static_cast<LogLevel>(vnd_range(0, 8));
      QUILL_LOG_DYNAMIC(logger, dl, "v {}", arg_expr());
      expect = dl >= ll;
      if (logger->calls) { VASSERT(logger->last_md->log_level() == LogLevel::Dynamic); VASSERT(logger->last_dynamic == dl); }
      break;
    }
  }
  // enqueued iff level >= logger level; arguments evaluated iff enqueued (never otherwise)
  VASSERT(logger->calls == (expect ? 1u : 0u));
  VASSERT(g_evals == logger->calls);
  VWITNESS(which == 10 && logger->calls == 1 && ll == LogLevel::Warning);
}

#ifndef NF1
  #define NF1 2
#endif
#ifndef F2
  #define F2 1
#endif
// ---------- (b) sink side: the REAL Sink::apply_all_filters / add_filter / set_log_level_filter
struct RecSink : Sink
{
  void write_log(MacroMetadata const*, uint64_t, std::string_view, std::string_view, std::string const&, std::string_view, LogLevel,
                 std::string_view, std::string_view, std::vector<std::pair<std::string, std::string>> const*, std::string_view,
                 std::string_view) override {}
  void flush_sink() override {}
  using Sink::apply_all_filters;
};
struct VFilter : Filter
{
  VFilter(char const* n, bool v) : Filter(n), verdict(v) {}
  bool filter(MacroMetadata const*, uint64_t, std::string_view, std::string_view, std::string_view, LogLevel lv,
              std::string_view, std::string_view) noexcept override { calls++; seen = lv; return verdict; }
  bool verdict; uint32_t calls{0}; LogLevel seen{LogLevel::None};
};

union SinkSlot { RecSink s; SinkSlot() {} ~SinkSlot() {} };   // never destroyed: virtual destructors are not the subject
static SinkSlot g_s1, g_s2;
// filter objects and the sinks' filter vectors live in TYPED static storage (rt/vrt.c VLL_NEW_HOOK; concrete begin/end):
// reads of their fields fold to constants during symbolic execution, malloc'ed blocks are untyped byte arrays
union VFSlot { VFilter f; VFSlot() {} ~VFSlot() {} };
static VFSlot g_vf0, g_vf1, g_vf2; static uint32_t g_vf_n;
extern "C" void* vh_new(uint64_t n)
{
  if (n != sizeof(VFilter) || g_vf_n >= 3) return nullptr;
  uint32_t k = g_vf_n++;
  return k == 0 ? static_cast<void*>(&g_vf0) : k == 1 ? static_cast<void*>(&g_vf1) : static_cast<void*>(&g_vf2);
}
extern "C" int vh_owns(void* p) { return p == &g_vf0 || p == &g_vf1 || p == &g_vf2; }
static Filter* g_lf1[4]; static Filter* g_lf2[4]; static Filter* g_gf1[4]; static Filter* g_gf2[4];
template <typename V, typename T> static void static_vec(V& v, T* store) { v._M_impl._M_start = store; v._M_impl._M_finish = store; v._M_impl._M_end_of_storage = store + 4; }
extern "C" void h_sink_filters()
{
  RecSink& s1 = *new (&g_s1.s) RecSink(); RecSink& s2 = *new (&g_s2.s) RecSink();
  // no vector reallocation later: libstdc++ relocates raw pointers with memmove, and CBMC's symbolic execution loses track
  // of a pointer that went through a byte-wise copy
  static_vec(s1._local_filters, g_lf1); static_vec(s2._local_filters, g_lf2);
  static_vec(s1._global_filters, reinterpret_cast<std::unique_ptr<Filter>*>(g_gf1)); static_vec(s2._global_filters, reinterpret_cast<std::unique_ptr<Filter>*>(g_gf2));
  LogLevel t1 = static_cast<LogLevel>(vnd_range(0, 10)), t2 = static_cast<LogLevel>(vnd_range(0, 10));
  s1.set_log_level_filter(t1); s2.set_log_level_filter(t2);
  bool v1 = vnd_bool(), v2 = vnd_bool(), v3 = vnd_bool();
  const uint64_t nf1 = (NF1 == 3 ? 2 : NF1);                         // sink 1 has NF1 (0..2) filters, sink 2 has F2 (0..1): concrete per query
  const bool f2 = F2;                               // (a symbolic allocation pattern makes CBMC's heap encoding explode)
  VFilter* a = nullptr; VFilter* b = nullptr; VFilter* c = nullptr;
  LogLevel lv0 = static_cast<LogLevel>(vnd_range(0, 8));
#if NF1 == 1
  // a first decision BEFORE the filter is added: the backend's local copy must be refreshed afterwards
  bool r0 = s1.apply_all_filters(nullptr, 1, "t", "n", "l", lv0, "m", "s");
  VASSERT(r0 == (lv0 >= t1));
  { auto p = std::make_unique<VFilter>("a", v1); a = p.get(); s1.add_filter(std::move(p)); }
#elif NF1 == 2
  { auto p = std::make_unique<VFilter>("a", v1); a = p.get(); s1.add_filter(std::move(p)); }
  { auto p = std::make_unique<VFilter>("b", v2); b = p.get(); s1.add_filter(std::move(p)); }
#elif NF1 == 3
  // the backend already holds a cached copy with ONE filter when the second one is added
  { auto p = std::make_unique<VFilter>("a", v1); a = p.get(); s1.add_filter(std::move(p)); }
  bool r0 = s1.apply_all_filters(nullptr, 1, "t", "n", "l", lv0, "m", "s");
  VASSERT(r0 == (lv0 >= t1 && v1));
  { auto p = std::make_unique<VFilter>("b", v2); b = p.get(); s1.add_filter(std::move(p)); }
#endif
  if (f2) { auto p = std::make_unique<VFilter>("a", v3); c = p.get(); s2.add_filter(std::move(p)); }
  LogLevel lv = static_cast<LogLevel>(vnd_range(0, 8));
  bool r1 = s1.apply_all_filters(nullptr, 2, "t", "n", "l", lv, "m", "s");
  bool r2 = s2.apply_all_filters(nullptr, 2, "t", "n", "l", lv, "m", "s");
  // written to sink i iff level >= its threshold and every filter attached to it accepts, independently of the other sink
  VASSERT(r1 == (lv >= t1 && (a == nullptr || v1) && (b == nullptr || v2)));
  VASSERT(r2 == (lv >= t2 && (c == nullptr || v3)));
  if (b && lv >= t1 && v1) { VASSERT(b->calls == 1); VASSERT(b->seen == lv); }   // the filter sees exactly the statement's level
  VWITNESS(r1 && !r2 && lv0 != lv);
}

// ---------- (c) the level a buffered event reports (static vs dynamic), incl. a slot reused static-after-dynamic
extern "C" void h_event_level()
{
  static constexpr MacroMetadata md_static{"f:1", "fn", "x", nullptr, LogLevel::Info, MacroMetadata::Event::Log};
  static constexpr MacroMetadata md_dyn{"f:2", "fn", "x", nullptr, LogLevel::Dynamic, MacroMetadata::Event::Log};
  union TE { TransitEvent e; TE() {} ~TE() {} } slot;
  TransitEvent& te = slot.e;
  LogLevel stale = static_cast<LogLevel>(vnd_range(0, 11));    // whatever the previous user of the slot left
  LogLevel given = static_cast<LogLevel>(vnd_range(0, 8));
  te.macro_metadata = &md_dyn; te.dynamic_log_level = given;
  VASSERT(te.log_level() == given);                            // reported with exactly the level it was given
  te.macro_metadata = &md_static; te.dynamic_log_level = stale;
  VASSERT(te.log_level() == LogLevel::Info);                   // a static statement never reports a stale dynamic level
  VWITNESS(stale == LogLevel::Error && given == LogLevel::Debug);
}
