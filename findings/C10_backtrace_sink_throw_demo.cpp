// Genuine defect found by C10 query backtrace_flush_throw: a sink that throws while a backtrace is being flushed makes
// BacktraceStorage::process exit before it clears the storage; the statements already written are written AGAIN at the next
// flush and the remaining ones are skipped in this one.   g++ -std=c++17 -I<repo>/include demo.cpp -lpthread
// exit 0 = each backtrace statement delivered at most once; exit 1 = a statement was delivered twice.
#include "quill/Backend.h"
#include "quill/Frontend.h"
#include "quill/LogMacros.h"
#include "quill/Logger.h"
#include "quill/sinks/Sink.h"
#include <cstdio>
#include <map>
#include <mutex>
#include <string>
static std::mutex g_m; static std::map<std::string, int> g_seen; static bool g_thrown;
struct ThrowOnce : quill::Sink
{
  void write_log(quill::MacroMetadata const*, uint64_t, std::string_view, std::string_view, std::string const&, std::string_view,
                 quill::LogLevel, std::string_view, std::string_view, std::vector<std::pair<std::string, std::string>> const*,
                 std::string_view msg, std::string_view) override
  {
    std::string m{msg};
    if (m == "bt two" && !g_thrown) { g_thrown = true; throw std::runtime_error("sink failed once"); }
    std::lock_guard<std::mutex> l{g_m}; g_seen[m]++;
  }
  void flush_sink() override {}
};
int main()
{
  quill::BackendOptions bo; bo.error_notifier = [](std::string const&) {};
  quill::Backend::start(bo);
  auto sink = quill::Frontend::create_or_get_sink<ThrowOnce>("s");
  quill::Logger* l = quill::Frontend::create_or_get_logger("root", std::move(sink));
  l->init_backtrace(4, quill::LogLevel::Error);
  LOG_BACKTRACE(l, "bt one"); LOG_BACKTRACE(l, "bt two"); LOG_BACKTRACE(l, "bt three");
  LOG_ERROR(l, "error A");      // flushes the backtrace: the sink throws on "bt two"
  LOG_ERROR(l, "error B");      // next flush
  l->flush_log();
  quill::Backend::stop();
  int rc = 0;
  for (auto const& [m, n] : g_seen) { std::printf("%-10s x%d\n", m.c_str(), n); if (n > 1) rc = 1; }
  if (!g_seen.count("bt three")) { std::printf("bt three never delivered\n"); rc = 1; }
  return rc;
}
