#include "quill/Backend.h"
#include "quill/Frontend.h"
#include "quill/LogMacros.h"
#include "quill/Logger.h"
#include "quill/DeferredFormatCodec.h"
#include "quill/sinks/ConsoleSink.h"
#include <atomic>
#include <cstdio>
struct Bad { int x; };
template <> struct fmtquill::formatter<Bad> {
  constexpr auto parse(format_parse_context& ctx) { return ctx.begin(); }
  auto format(Bad const& b, format_context& ctx) const { if (b.x == 1) throw 42; return fmtquill::format_to(ctx.out(), "Bad{}", b.x); }
};
template <> struct quill::Codec<Bad> : quill::DeferredFormatCodec<Bad> {};
static std::atomic<int> notes{0};
int main(){
  quill::BackendOptions bo; bo.error_notifier = [](std::string const& s){ if (notes.fetch_add(1) < 3) fprintf(stderr, "NOTIFIER: %s\n", s.c_str()); };
  quill::Backend::start(bo);
  auto sink = quill::Frontend::create_or_get_sink<quill::ConsoleSink>("c");
  auto* l = quill::Frontend::create_or_get_logger("root", sink);
  LOG_INFO(l, "first {}", Bad{0});
  LOG_INFO(l, "second {}", Bad{1});
  LOG_INFO(l, "third {}", Bad{2});
  l->flush_log();
  fprintf(stderr, "flush returned, notifier calls=%d\n", notes.load());
}
