/* C++ exception runtime for the pending-exception model of the translator (engine/ll2c.py, exc=True queries):
 * a thrown exception is a flag (vll_exc) plus the object and its typeinfo; every call site tests the flag and either
 * branches to its landing pad (invoke) or returns to its caller (call); the landing pad's selector is computed by the
 * generated vll_eh_match_* functions (typeinfo chain).  Only the generated C links this file: the native replay of the
 * real IR uses the real C++ runtime.  Not modelled: nested / rethrown-while-handling exceptions, exception_ptr,
 * catch by value copies, pointer adjustment for multiple inheritance. */
#include "vll_rt.h"
void* vll_caught_obj; void* vll_caught_ti;
void* __cxa_allocate_exception(uint64_t n){ void* _Znwm(uint64_t); return _Znwm(n); }
void __cxa_free_exception(void* p){ }
void __cxa_throw(void* obj, void* ti, void* dtor){ vll_exc = 1; vll_exc_obj = obj; vll_exc_ti = ti; }
void* __cxa_begin_catch(void* obj){ vll_exc = 0; vll_caught_obj = vll_exc_obj; vll_caught_ti = vll_exc_ti; return obj; }
void __cxa_end_catch(void){ }
void __cxa_rethrow(void){ vll_exc = 1; vll_exc_obj = vll_caught_obj; vll_exc_ti = vll_caught_ti; }
void _ZSt9terminatev(void){ vll_fatal_ok = 0; vll_abort(); }
void _ZNSt9exceptionD2Ev(void* self){ }
void _ZNSt9exceptionD1Ev(void* self){ }
void _ZNSt9exceptionD0Ev(void* self){ }
void _ZNSt9bad_allocD1Ev(void* self){ }
void _ZNSt9bad_allocD2Ev(void* self){ }
void _ZNSt9bad_allocD0Ev(void* self){ }
