/* Core runtime: nondeterminism, properties, allocation, fatal-error hooks.  See vll_rt.h. */
#include "vll_rt.h"

int vll_fatal_ok, vll_fatal_seen;
int vll_exc; void* vll_exc_obj; int vll_exc_type; void* vll_exc_ti;

#ifdef __CPROVER__
/* ------------------------------------------------------------------ CBMC mode */
unsigned char __libc_single_threaded = 1;   /* as natively before any thread is created: shared_ptr counts are plain integers */
uint64_t nondet_u64(void);
uint64_t vnd_last;   /* every draw is assigned here: the driver reads the draws, in order, from the trace */
uint64_t vnd_u64(void){ uint64_t v = nondet_u64(); vnd_last = v; return v; }
uint64_t vnd_range(uint64_t lo, uint64_t hi){ uint64_t v = nondet_u64(); __CPROVER_assume(lo <= v && v <= hi); vnd_last = v; return v; }
void vassume(uint8_t c){ __CPROVER_assume(c != 0); }
#ifdef WITNESS
void vassert_at(uint8_t c, uint32_t line){ (void)c; (void)line; }
void vwitness_at(uint8_t c, uint32_t line){ __CPROVER_assert(!c, "witness"); }
#else
void vassert_at(uint8_t c, uint32_t line){ __CPROVER_assert(c != 0, "harness property"); }
void vwitness_at(uint8_t c, uint32_t line){ (void)c; (void)line; }
#endif
void vobs(uint64_t v){ (void)v; }
void vll_abort(void){
#ifndef WITNESS
  __CPROVER_assert(vll_fatal_ok, "unexpected fatal error (QUILL_THROW/abort reached)");
#endif
  vll_fatal_seen = 1; __CPROVER_assume(0);
}
void vll_assert_fail(void* e, void* f, uint32_t l, void* fn){
#ifndef WITNESS
  __CPROVER_assert(0, "quill debug assert");
#endif
  __CPROVER_assume(0);
}
static void* vll_alloc(uint64_t n){ void* p = malloc(n); __CPROVER_assume(p != 0); return p; }
#define VLL_FREE(p) free(p)
#else
/* ------------------------------------------------------------------ native mode */
#include <stdio.h>
static FILE* vin; static int vmode = -1; static uint64_t vrng; static int vquiet;
static void vinit(void){
  if (vmode >= 0) return;
  const char* f = getenv("VLL_INPUTS"); vquiet = getenv("VLL_QUIET") != 0;
  if (f) { vin = fopen(f, "r"); if (!vin) { perror(f); exit(3); } vmode = 1; }
  else { const char* s = getenv("VLL_SEED"); vrng = 0x9E3779B97F4A7C15ull ^ (s ? strtoull(s, 0, 10) * 0xD1B54A32D192ED03ull : 1); vmode = 0; }
}
static uint64_t vnext(void){ vrng ^= vrng << 13; vrng ^= vrng >> 7; vrng ^= vrng << 17; return vrng; }
static int vread(uint64_t* v){ unsigned long long x; if (fscanf(vin, "%llu", &x) == 1) { *v = x; return 1; } *v = 0; return 0; }
uint64_t vnd_u64(void){
  vinit(); uint64_t v;
  if (vmode == 1) { vread(&v); return v; }
  uint64_t r = vnext();
  switch (r & 7) {
    case 0: case 1: return (r >> 8) & 3;
    case 2: case 3: return (r >> 8) & 31;
    case 4: return (uint64_t)0 - ((r >> 8) & 31);
    case 5: return ((uint64_t)1 << ((r >> 8) & 63)) + ((r >> 16) & 3) - 1;
    default: return vnext();
  }
}
uint64_t vnd_range(uint64_t lo, uint64_t hi){
  vinit(); uint64_t v;
  if (vmode == 1) { vread(&v); if (!(lo <= v && v <= hi)) { if (!vquiet) printf("ASSUME FAILED (range)\n"); exit(77); } return v; }
  if (hi < lo) { exit(77); }
  uint64_t span = hi - lo + 1; uint64_t r = vnext();
  if (span == 0) return r;
  if ((r & 3) == 0) return lo + ((r >> 8) % span < 2 ? (r >> 8) % span : span - 1 - ((r >> 16) % 2 < span ? (r >> 16) % 2 : 0));
  return lo + (r >> 8) % span;
}
void vassume(uint8_t c){ if (!c) { if (!vquiet) printf("ASSUME FAILED\n"); exit(77); } }
void vassert_at(uint8_t c, uint32_t line){
  printf("A %u %d\n", line, c != 0);
  if (!c) { printf("VASSERT FAILED line %u\n", line); fflush(stdout); exit(1); }
}
void vwitness_at(uint8_t c, uint32_t line){ if (c) printf("W %u\n", line); }
void vobs(uint64_t v){ printf("O %llu\n", (unsigned long long)v); }
void vll_abort(void){
  printf("F %d\n", vll_fatal_ok);
  if (!vll_fatal_ok) { printf("VASSERT FAILED fatal (unexpected QUILL_THROW/abort)\n"); fflush(stdout); exit(1); }
  fflush(stdout); exit(0);
}
void vll_assert_fail(void* e, void* f, uint32_t l, void* fn){
  printf("VASSERT FAILED debug-assert %s (%s:%u)\n", (char*)e, (char*)f, l); fflush(stdout); exit(1);
}
void vll_native_stop(int what){ if (what == 2) { printf("CHECK ERROR: indirect call outside candidate set\n"); fflush(stdout); exit(5); } printf(what ? "VASSERT FAILED reached IR 'unreachable' (undefined behaviour)\n" : "VASSERT FAILED llvm.trap reached\n"); fflush(stdout); exit(1); }
static void* vll_alloc(uint64_t n){ void* p = malloc(n ? n : 1); if (!p) exit(3); return p; }
#define VLL_FREE(p) ((void)(p))   /* native runs never reuse addresses (as in CBMC, where every allocation is a fresh object) */
#endif

/* ------------------------------------------------------------------ both modes */
int vll_alloc_forbidden;          /* harness: from now on any heap / mmap allocation is a violation (C11) */
void vll_forbidden(void){ vassert_at(0, 9200); }   /* a function that must be unreachable on the analysed path was reached */
static void alloc_check(void){ if (vll_alloc_forbidden) vassert_at(0, 9201); }
uint64_t vll_rdtsc(void){ return vnd_u64(); }      /* the TSC is environment: any value */
int vll_printf(void* fmt, ...){ return 0; }
int vll_fprintf(void* f, void* fmt, ...){ return 0; }
int vll_puts(void* s){ return 0; }
int vll_cxa_atexit(void* f, void* o, void* d){ return 0; }
int vll_guard_acquire(void* g){ return *(uint8_t*)g == 0; }
void vll_guard_release(void* g){ *(uint8_t*)g = 1; }
void vll_pure_virtual(void){ vassert_at(0, 0); }

#ifdef __CPROVER__
/* libc string scans CBMC's built-in library does not provide */
void* memchr(const void* s, int c, size_t n){ const unsigned char* p = s; for (size_t i = 0; i < n; i++) if (p[i] == (unsigned char)c) return (void*)(p + i); return 0; }
size_t strnlen(const char* s, size_t n){ size_t i = 0; while (i < n && s[i]) i++; return i; }
#endif

/* allocation: failure is outside every claim (pointer assumed non-null) */
#ifdef VLL_ALIGNED_NEW_HOOK
/* over-aligned objects (queue nodes, thread contexts) come from a typed static pool owned by the harness */
void* vh_aligned_new(uint64_t n, uint64_t a); void vh_aligned_delete(void* p);
void* _ZnwmSt11align_val_t(uint64_t n, uint64_t a){ return vh_aligned_new(n, a); }
void _ZdlPvSt11align_val_t(void* p, uint64_t a){ vh_aligned_delete(p); }
void _ZdlPvmSt11align_val_t(void* p, uint64_t n, uint64_t a){ vh_aligned_delete(p); }
#define VLL_NO_ALIGNED_MODELS 1
#endif
#ifndef VLL_NO_ALLOC_MODELS
#ifdef VLL_NEW_HOOK
/* chosen objects come from a TYPED static pool owned by the harness (field reads then fold to constants in symbolic
 * execution; a malloc'ed block is an untyped byte array); vh_new returns 0 for everything else */
void* vh_new(uint64_t n); int vh_owns(void* p);
void* _Znwm(uint64_t n){ alloc_check(); void* p = vh_new(n); return p ? p : vll_alloc(n); }
#else
void* _Znwm(uint64_t n){ alloc_check(); return vll_alloc(n); }
#endif
void* _Znam(uint64_t n){ alloc_check(); return vll_alloc(n); }
#ifndef VLL_NO_ALIGNED_MODELS
void* _ZnwmSt11align_val_t(uint64_t n, uint64_t a){ alloc_check(); return vll_alloc(n); }
#endif
void* _ZnamSt11align_val_t(uint64_t n, uint64_t a){ return vll_alloc(n); }
#ifdef VLL_NEW_HOOK
void _ZdlPv(void* p){ if (p && vh_owns(p)) return; VLL_FREE(p); }
void _ZdlPvm(void* p, uint64_t n){ if (p && vh_owns(p)) return; VLL_FREE(p); }
#else
void _ZdlPv(void* p){ VLL_FREE(p); }
void _ZdlPvm(void* p, uint64_t n){ VLL_FREE(p); }
#endif
void _ZdaPv(void* p){ VLL_FREE(p); }
void _ZdaPvm(void* p, uint64_t n){ VLL_FREE(p); }
#ifndef VLL_NO_ALIGNED_MODELS
void _ZdlPvSt11align_val_t(void* p, uint64_t a){ vra_forget(p, 512); VLL_FREE(p); }
void _ZdlPvmSt11align_val_t(void* p, uint64_t n, uint64_t a){ vra_forget(p, n); VLL_FREE(p); }
#endif
#endif

#ifndef VLL_NO_MAIN
void VLL_ENTRY(void);
void vll_global_ctors(void);
#ifdef VLL_EMPTY_CTORS
void vll_global_ctors(void){}
#endif
int main(void){ vll_global_ctors(); VLL_ENTRY(); return 0; }
#endif
