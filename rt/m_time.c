/* libc broken-down time, modelled EXACTLY for the fields quill's rotation code reads and writes (seconds, minutes,
 * hours, and a day count carried in tm_mday/tm_yday with tm_mon = 0, tm_year = 70): gmtime_r/timegm are mutually inverse
 * civil arithmetic on that representation, including normalisation of out-of-range hours/minutes/seconds.
 * localtime_r/mktime = GMT shifted by ONE zone offset, fixed for the run and chosen by the harness in vll_tz_offset
 * (a multiple of 900 s): no DST transition inside a bounded run - stated assumption.  Calendar months/years, %Z names
 * and the real tz database are outside the model. */
#include "vll_rt.h"
struct vtm { int32_t sec, min, hour, mday, mon, year, wday, yday, isdst; int64_t gmtoff; const char* zone; };
int64_t vll_tz_offset;
static void fill(int64_t t, struct vtm* r){
  int64_t days = t / 86400, rem = t % 86400;
  if (rem < 0) { rem += 86400; days -= 1; }
  r->hour = (int32_t)(rem / 3600); r->min = (int32_t)((rem % 3600) / 60); r->sec = (int32_t)(rem % 60);
  r->mday = (int32_t)(days + 1); r->mon = 0; r->year = 70; r->yday = (int32_t)days; r->wday = (int32_t)((days + 4) % 7); r->isdst = 0;
}
static int64_t unfill(struct vtm* r){ return ((int64_t)r->mday - 1) * 86400 + (int64_t)r->hour * 3600 + (int64_t)r->min * 60 + (int64_t)r->sec; }
void* gmtime_r(const int64_t* t, struct vtm* r){ fill(*t, r); r->gmtoff = 0; r->zone = "GMT"; return r; }
int64_t timegm(struct vtm* r){ int64_t t = unfill(r); fill(t, r); return t; }
void* localtime_r(const int64_t* t, struct vtm* r){ fill(*t + vll_tz_offset, r); r->gmtoff = vll_tz_offset; r->zone = "LCL"; return r; }
int64_t mktime(struct vtm* r){ int64_t t = unfill(r) - vll_tz_offset; fill(t + vll_tz_offset, r); return t; }
