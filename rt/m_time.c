/* libc broken-down time, modelled EXACTLY for the fields quill's rotation code reads and writes (seconds, minutes,
 * hours, and a day count carried in tm_mday/tm_yday with tm_mon = 0, tm_year = 70): gmtime_r/timegm are mutually inverse
 * civil arithmetic on that representation, including normalisation of out-of-range hours/minutes/seconds.
 * localtime_r/mktime = GMT shifted by ONE zone offset, fixed for the run and chosen by the harness in vll_tz_offset
 * (a multiple of 900 s); optionally ONE daylight-saving transition: from the instant vll_tz_dst_at (chosen by the harness,
 * a multiple of 900 s like every transition in the tz database) the offset is vll_tz_offset + vll_tz_dst_delta.  Calendar months/years, %Z names
 * and the real tz database are outside the model. */
#include "vll_rt.h"
struct vtm { int32_t sec, min, hour, mday, mon, year, wday, yday, isdst; int64_t gmtoff; const char* zone; };
int64_t vll_tz_offset;
int64_t vll_tz_dst_at = 0x7fffffffffffffffLL, vll_tz_dst_delta;     /* default: no transition */
static int64_t zone_off(int64_t t){ return vll_tz_offset + (t >= vll_tz_dst_at ? vll_tz_dst_delta : 0); }
static void fill(int64_t t, struct vtm* r){
#if defined(__CPROVER__) && defined(VLL_TIME32)
  /* queries whose instants provably stay in [0, 2^31): 32-bit division circuits (a quarter of the 64-bit ones); an
   * instant outside is reported, never wrapped */
  if (t < 0 || t > 2147483647) { vassert_at(0, 9302); __CPROVER_assume(0); }
  uint32_t u = (uint32_t)t, d32 = u / 86400u, r32 = u % 86400u;
  r->hour = (int32_t)(r32 / 3600u); r->min = (int32_t)((r32 % 3600u) / 60u); r->sec = (int32_t)(r32 % 60u);
  r->mday = (int32_t)(d32 + 1); r->mon = 0; r->year = 70; r->yday = (int32_t)d32; r->wday = (int32_t)((d32 + 4) % 7u); r->isdst = 0;
  return;
#endif
  int64_t days = t / 86400, rem = t % 86400;
  if (rem < 0) { rem += 86400; days -= 1; }
  r->hour = (int32_t)(rem / 3600); r->min = (int32_t)((rem % 3600) / 60); r->sec = (int32_t)(rem % 60);
  r->mday = (int32_t)(days + 1); r->mon = 0; r->year = 70; r->yday = (int32_t)days; r->wday = (int32_t)((days + 4) % 7); r->isdst = 0;
}
static int64_t unfill(struct vtm* r){ return ((int64_t)r->mday - 1) * 86400 + (int64_t)r->hour * 3600 + (int64_t)r->min * 60 + (int64_t)r->sec; }
void* gmtime_r(const int64_t* t, struct vtm* r){ fill(*t, r); r->gmtoff = 0; r->zone = "GMT"; return r; }
int64_t timegm(struct vtm* r){ int64_t t = unfill(r); fill(t, r); return t; }
void* localtime_r(const int64_t* t, struct vtm* r){ int64_t o = zone_off(*t); fill(*t + o, r); r->gmtoff = o; r->isdst = (*t >= vll_tz_dst_at); r->zone = "LCL"; return r; }
int64_t mktime(struct vtm* r){ int64_t t = unfill(r) - vll_tz_offset; fill(t + vll_tz_offset, r); return t; }

/* strftime for the conversions quill's StringFromTime caches or passes through: %H %M %S %I %k %l %p %s %u %A %% and literal
 * text (every other conversion is outside the model: reported).  Returns 0 when the buffer is too small, like libc. */
static int put2(char* o, uint64_t max, uint64_t* n, int v, char pad){ if (*n + 2 >= max) return 0; o[(*n)++] = v < 10 ? pad : (char)('0' + v / 10); o[(*n)++] = (char)('0' + v % 10); return 1; }
uint64_t strftime(char* out, uint64_t max, const char* fmt, const struct vtm* tm){
  uint64_t n = 0;
  for (uint64_t i = 0; fmt[i]; i++) {
    if (fmt[i] != '%') { if (n + 1 >= max) return 0; out[n++] = fmt[i]; continue; }
    char c = fmt[++i];
    int h12 = tm->hour % 12 == 0 ? 12 : tm->hour % 12;
    if (c == 'H') { if (!put2(out, max, &n, tm->hour, '0')) return 0; }
    else if (c == 'M') { if (!put2(out, max, &n, tm->min, '0')) return 0; }
    else if (c == 'S') { if (!put2(out, max, &n, tm->sec, '0')) return 0; }
    else if (c == 'I') { if (!put2(out, max, &n, h12, '0')) return 0; }
    else if (c == 'k') { if (!put2(out, max, &n, tm->hour, ' ')) return 0; }
    else if (c == 'l') { if (!put2(out, max, &n, h12, ' ')) return 0; }
    else if (c == 'p') { if (n + 2 >= max) return 0; out[n++] = tm->hour < 12 ? 'A' : 'P'; out[n++] = 'M'; }
    else if (c == '%') { if (n + 1 >= max) return 0; out[n++] = '%'; }
    else if (c == 's') {
      /* ten-digit epochs only (2001-09-09 .. 2286): loop-free, anything else is outside the model and reported */
      int64_t t = unfill((struct vtm*)tm) - tm->gmtoff;
      if (t < 1000000000 || t > 9999999999) { vassert_at(0, 9301); return 0; }
      if (n + 10 >= max) return 0;
      uint64_t hi = (uint64_t)t / 100000, lo = (uint64_t)t % 100000;   /* two five-digit halves */
      out[n + 0] = (char)('0' + hi / 10000); out[n + 1] = (char)('0' + hi / 1000 % 10); out[n + 2] = (char)('0' + hi / 100 % 10); out[n + 3] = (char)('0' + hi / 10 % 10); out[n + 4] = (char)('0' + hi % 10);
      out[n + 5] = (char)('0' + lo / 10000); out[n + 6] = (char)('0' + lo / 1000 % 10); out[n + 7] = (char)('0' + lo / 100 % 10); out[n + 8] = (char)('0' + lo / 10 % 10); out[n + 9] = (char)('0' + lo % 10);
      n += 10;
    }
    else if (c == 'A') {     /* full weekday name: the one VARIABLE-WIDTH conversion of the model (6..9 characters) */
      static const char* const wd[7] = {"Sunday", "Monday", "Tuesday", "Wednesday", "Thursday", "Friday", "Saturday"};
      const char* w = wd[tm->wday == 0 ? 0 : tm->wday == 1 ? 1 : tm->wday == 2 ? 2 : tm->wday == 3 ? 3 : tm->wday == 4 ? 4 : tm->wday == 5 ? 5 : 6];
      for (int k = 0; k < 9 && w[k]; k++) { if (n + 1 >= max) return 0; out[n++] = w[k]; }
    }
    else if (c == 'u') { if (n + 1 >= max) return 0; out[n++] = (char)('0' + (tm->wday == 0 ? 7 : tm->wday)); }   /* ISO weekday 1..7 */
    else { vassert_at(0, 9300); return 0; }      /* conversion outside the model */
  }
  out[n] = 0;
  return n;
}
