/* libc broken-down time, modelled EXACTLY for the fields quill's rotation code reads and writes (seconds, minutes,
 * hours, and a day count carried in tm_mday/tm_yday with tm_mon = 0, tm_year = 70): gmtime_r/timegm are mutually inverse
 * civil arithmetic on that representation, including normalisation of out-of-range hours/minutes/seconds.
 * localtime_r/mktime = GMT shifted by ONE zone offset, fixed for the run and chosen by the harness in vll_tz_offset
 * (a multiple of 900 s): no DST transition inside a bounded run - stated assumption.  Calendar months/years, %Z names
 * and the real tz database are outside the model. */
#include "vll_rt.h"
struct vtm { int32_t sec, min, hour, mday, mon, year, wday, yday, isdst; int64_t gmtoff; const char* zone; };
int64_t vll_tz_offset;
static void fill(int64_t t, struct vtm* r){
  int64_t days = t / 86400, rem = t % 86400;
  if (rem < 0) { rem += 86400; days -= 1; }
  r->hour = (int32_t)(rem / 3600); r->min = (int32_t)((rem % 3600) / 60); r->sec = (int32_t)(rem % 60);
  r->mday = (int32_t)(days + 1); r->mon = 0; r->year = 70; r->yday = (int32_t)days; r->wday = (int32_t)((days + 4) % 7); r->isdst = 0;
}
static int64_t unfill(struct vtm* r){ return ((int64_t)r->mday - 1) * 86400 + (int64_t)r->hour * 3600 + (int64_t)r->min * 60 + (int64_t)r->sec; }
void* gmtime_r(const int64_t* t, struct vtm* r){ fill(*t, r); r->gmtoff = 0; r->zone = "GMT"; return r; }
int64_t timegm(struct vtm* r){ int64_t t = unfill(r); fill(t, r); return t; }
void* localtime_r(const int64_t* t, struct vtm* r){ fill(*t + vll_tz_offset, r); r->gmtoff = vll_tz_offset; r->zone = "LCL"; return r; }
int64_t mktime(struct vtm* r){ int64_t t = unfill(r) - vll_tz_offset; fill(t + vll_tz_offset, r); return t; }

/* strftime for the conversions quill's StringFromTime caches or passes through: %H %M %S %I %k %l %p %s %% and literal
 * text (every other conversion is outside the model: reported).  Returns 0 when the buffer is too small, like libc. */
static int put2(char* o, uint64_t max, uint64_t* n, int v, char pad){ if (*n + 2 >= max) return 0; o[(*n)++] = v < 10 ? pad : (char)('0' + v / 10); o[(*n)++] = (char)('0' + v % 10); return 1; }
uint64_t strftime(char* out, uint64_t max, const char* fmt, const struct vtm* tm){
  uint64_t n = 0;
  for (uint64_t i = 0; fmt[i]; i++) {
    if (fmt[i] != '%') { if (n + 1 >= max) return 0; out[n++] = fmt[i]; continue; }
    char c = fmt[++i];
    int h12 = tm->hour % 12 == 0 ? 12 : tm->hour % 12;
    if (c == 'H') { if (!put2(out, max, &n, tm->hour, '0')) return 0; }
    else if (c == 'M') { if (!put2(out, max, &n, tm->min, '0')) return 0; }
    else if (c == 'S') { if (!put2(out, max, &n, tm->sec, '0')) return 0; }
    else if (c == 'I') { if (!put2(out, max, &n, h12, '0')) return 0; }
    else if (c == 'k') { if (!put2(out, max, &n, tm->hour, ' ')) return 0; }
    else if (c == 'l') { if (!put2(out, max, &n, h12, ' ')) return 0; }
    else if (c == 'p') { if (n + 2 >= max) return 0; out[n++] = tm->hour < 12 ? 'A' : 'P'; out[n++] = 'M'; }
    else if (c == '%') { if (n + 1 >= max) return 0; out[n++] = '%'; }
    else if (c == 's') {
      int64_t t = unfill((struct vtm*)tm) - tm->gmtoff; char d[20]; int k = 0;
      if (t == 0) d[k++] = '0';
      while (t > 0 && k < 20) { d[k++] = (char)('0' + t % 10); t /= 10; }
      if (n + (uint64_t)k >= max) return 0;
      while (k > 0) out[n++] = d[--k];
    }
    else { vassert_at(0, 9300); return 0; }      /* conversion outside the model */
  }
  out[n] = 0;
  return n;
}
