/* libstdc++.so-resident helpers of the node-based containers (no body in the IR).  Semantics-preserving models:
 * hashing is any deterministic function; the rehash policy may choose any bucket count >= the need; the red-black
 * tree is modelled as an UNBALANCED binary search tree (same in-order sequence, which is all the containers'
 * observable behaviour depends on).  libmodel: natively the real library is linked instead. */
#include "vll_rt.h"
uint64_t _ZSt11_Hash_bytesPKvmm(const void* p, uint64_t len, uint64_t seed){
  uint64_t h = seed ^ 1469598103934665603ull; const unsigned char* b = p;
  for (uint64_t i = 0; i < len; i++) { h ^= b[i]; h *= 1099511628211ull; }
  return h;
}
struct vll_pair_bs { uint8_t first; uint64_t second; };
struct vll_pair_bs _ZNKSt8__detail20_Prime_rehash_policy14_M_need_rehashEmmm(void* self, uint64_t n_bkt, uint64_t n_elt, uint64_t n_ins){
  struct vll_pair_bs r; r.first = 0; r.second = 0;
  if (n_elt + n_ins > n_bkt) { r.first = 1; r.second = 2 * (n_elt + n_ins) + 1; }
  return r;
}
uint64_t _ZNKSt8__detail20_Prime_rehash_policy11_M_next_bktEm(void* self, uint64_t n){ return n < 13 ? 13 : (n | 1); }
void _ZNSt18condition_variableC1Ev(void* self){ }
void _ZNSt18condition_variableD1Ev(void* self){ }
void _ZNSt18condition_variable10notify_oneEv(void* self){ }
void _ZNSt18condition_variable10notify_allEv(void* self){ }
/* ---- red-black tree as unbalanced BST: node base = { int color; parent; left; right } ; header: parent=root, left=leftmost, right=rightmost */
struct rbn { uint32_t color; struct rbn* parent; struct rbn* left; struct rbn* right; };
struct rbn* _ZSt18_Rb_tree_incrementPSt18_Rb_tree_node_base(struct rbn* x){
  if (x->right) { x = x->right; while (x->left) x = x->left; return x; }
  struct rbn* y = x->parent;
  while (x == y->right) { x = y; y = y->parent; }
  if (x->right != y) x = y;
  return x;
}
struct rbn* _ZSt18_Rb_tree_incrementPKSt18_Rb_tree_node_base(struct rbn* x){ return _ZSt18_Rb_tree_incrementPSt18_Rb_tree_node_base(x); }
struct rbn* _ZSt18_Rb_tree_decrementPSt18_Rb_tree_node_base(struct rbn* x){
  if (x->color == 0 && x->parent->parent == x) return x->right;      /* header: rightmost */
  if (x->left) { struct rbn* y = x->left; while (y->right) y = y->right; return y; }
  struct rbn* y = x->parent;
  while (x == y->left) { x = y; y = y->parent; }
  return y;
}
struct rbn* _ZSt18_Rb_tree_decrementPKSt18_Rb_tree_node_base(struct rbn* x){ return _ZSt18_Rb_tree_decrementPSt18_Rb_tree_node_base(x); }
void _ZSt29_Rb_tree_insert_and_rebalancebPSt18_Rb_tree_node_baseS0_RS_(uint8_t insert_left, struct rbn* x, struct rbn* p, struct rbn* header){
  x->parent = p; x->left = 0; x->right = 0; x->color = 1;   /* colours are not used by the model except header==red(0) */
  if (insert_left) {
    p->left = x;
    if (p == header) { header->parent = x; header->right = x; }
    else if (p == header->left) header->left = x;
  } else {
    p->right = x;
    if (p == header->right) header->right = x;
  }
}
