/* Shallow payload models (class-heavy units are compiled with -fno-inline so these can be cut by name):
 * TransitEvent = 56-byte POD (timestamp, macro_metadata, logger_base, formatted_msg*, named_args*, flush_flag*,
 * dynamic_log_level); its FormatBuffer / named_args are not allocated.  std::string temporaries are inert.
 * Used where neither message text nor strings are the subject of the property. */
#include "vll_rt.h"
/* formatted_msg of every modelled event points at one shared, always-empty libfmt buffer (rendering is stubbed):
 * layout of fmt::detail::buffer<char> = { char* ptr; size_t size; size_t capacity; grow fn } */
static struct { char* ptr; uint64_t size; uint64_t cap; void* grow; char store[8]; } vll_fmtbuf;
static void* fmtbuf(void){ vll_fmtbuf.ptr = vll_fmtbuf.store; return &vll_fmtbuf; }
void _ZN5quill2v96detail12TransitEventC2Ev(void* t){ memset(t, 0, 56); ((uint8_t*)t)[48] = 10; /* LogLevel::None */ ((void**)t)[3] = fmtbuf(); }
void _ZN5quill2v96detail12TransitEventC2EOS2_(void* t, void* o){ memcpy(t, o, 56); ((uint64_t*)o)[4] = 0; }
void* _ZN5quill2v96detail12TransitEventaSEOS2_(void* t, void* o){ if (t != o) { memcpy(t, o, 56); ((uint64_t*)o)[4] = 0; } return t; }
void _ZN5quill2v96detail12TransitEventD2Ev(void* t){ }
