/* inert std::string: constructors/destructors/moves do nothing, views are empty.  Only for harnesses in
 * which no string content is observed. */
#include "vll_rt.h"
struct vll_sv { uint64_t n; void* p; };
void _ZNSt7__cxx1112basic_stringIcSt11char_traitsIcESaIcEEC2Ev(void* a){}
void _ZNSaIcEC2Ev(void* a){} void _ZNSaIcED2Ev(void* a){}
void _ZNSt7__cxx1112basic_stringIcSt11char_traitsIcESaIcEEC2EOS4_(void* a, void* b){}
void _ZNSt7__cxx1112basic_stringIcSt11char_traitsIcESaIcEEC2ISt17basic_string_viewIcS2_EvEERKT_RKS3_(void* a, void* b, void* c){}
void _ZNSt7__cxx1112basic_stringIcSt11char_traitsIcESaIcEED2Ev(void* a){}
void* _ZNSt7__cxx1112basic_stringIcSt11char_traitsIcESaIcEEaSEOS4_(void* a, void* b){ return a; }
struct vll_sv _ZNKSt7__cxx1112basic_stringIcSt11char_traitsIcESaIcEEcvSt17basic_string_viewIcS2_EEv(void* a){ struct vll_sv r = {0, 0}; return r; }
