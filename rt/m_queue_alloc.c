/* BoundedSPSCQueueImpl<T>::_alloc_aligned/_free_aligned (mmap + pointer-alignment arithmetic + munmap):
 * environment, replaced by malloc/free of exactly the requested size (so any access past 2*capacity is
 * reported by CBMC's bounds checks and any access after free by its deallocated-object check). */
#include "vll_rt.h"
/* -DVLL_QBLOCK=<bytes>: every storage block has this CONCRETE size (symbolic allocation sizes make CBMC's heap
 * encoding explode); requests must fit (asserted).  Accesses past 2*capacity are then checked by the harness. */
#if defined(VLL_QBLOCK) && defined(VLL_QPOOL)
/* -DVLL_QPOOL=<n>: storage blocks come from a static pool (no dynamic objects at all: CBMC's merged heap encoding
 * of many candidate malloc objects runs out of memory); a freed block is poisoned so that any later use of its
 * contents is visible; pool exhaustion ends the path (stated bound on the number of nodes). */
static unsigned char q_pool0[VLL_QBLOCK], q_pool1[VLL_QBLOCK], q_pool2[VLL_QBLOCK], q_pool3[VLL_QBLOCK]; static uint32_t q_used;
static void* qalloc(uint64_t size){
  vassert_at(size <= VLL_QBLOCK, 9100);
  vassume(q_used < VLL_QPOOL && q_used < 4);
  uint32_t i = q_used++;
  return i == 0 ? q_pool0 : i == 1 ? q_pool1 : i == 2 ? q_pool2 : q_pool3;
}
void vll_qpool_set(uint32_t used){ vassert_at(q_used == used, 9101); q_used = used; }
static void qfree(void* p){ vra_forget(p, VLL_QBLOCK); for (uint32_t i = 0; i < VLL_QBLOCK; i++) ((unsigned char*)p)[i] = 0xDD; }
#define VLL_QFREE_POOL 1
#else
static void* qalloc(uint64_t size){
#ifdef VLL_QBLOCK
  vassert_at(size <= VLL_QBLOCK, 9100); void* p = malloc(VLL_QBLOCK);
#else
  void* p = malloc(size);
#endif
#ifdef __CPROVER__
  __CPROVER_assume(p != 0);
#endif
  return p; }
#endif
#ifdef VLL_QFREE_POOL
#define VLL_QFREE(p) qfree(p)
#elif defined(__CPROVER__)
#define VLL_QFREE(p) do { vra_forget(p, 0); free(p); } while (0)
#else
#define VLL_QFREE(p) ((void)(p))
#endif
void* _ZN5quill2v96detail20BoundedSPSCQueueImplIhE14_alloc_alignedEmmNS0_15HugePagesPolicyE(uint64_t size, uint64_t al, uint32_t pol){ return qalloc(size); }
void* _ZN5quill2v96detail20BoundedSPSCQueueImplImE14_alloc_alignedEmmNS0_15HugePagesPolicyE(uint64_t size, uint64_t al, uint32_t pol){ return qalloc(size); }
void _ZN5quill2v96detail20BoundedSPSCQueueImplIhE13_free_alignedEPv(void* p){ VLL_QFREE(p); }
void _ZN5quill2v96detail20BoundedSPSCQueueImplImE13_free_alignedEPv(void* p){ VLL_QFREE(p); }
