/* BoundedSPSCQueueImpl<T>::_alloc_aligned/_free_aligned (mmap + pointer-alignment arithmetic + munmap):
 * environment, replaced by malloc/free of exactly the requested size (so any access past 2*capacity is
 * reported by CBMC's bounds checks and any access after free by its deallocated-object check). */
#include "vll_rt.h"
static void* qalloc(uint64_t size){ void* p = malloc(size);
#ifdef __CPROVER__
  __CPROVER_assume(p != 0);
#endif
  return p; }
void* _ZN5quill2v96detail20BoundedSPSCQueueImplIhE14_alloc_alignedEmmNS0_15HugePagesPolicyE(uint64_t size, uint64_t al, uint32_t pol){ return qalloc(size); }
void* _ZN5quill2v96detail20BoundedSPSCQueueImplImE14_alloc_alignedEmmNS0_15HugePagesPolicyE(uint64_t size, uint64_t al, uint32_t pol){ return qalloc(size); }
void _ZN5quill2v96detail20BoundedSPSCQueueImplIhE13_free_alignedEPv(void* p){ vra_forget(p, 0); free(p); }
void _ZN5quill2v96detail20BoundedSPSCQueueImplImE13_free_alignedEPv(void* p){ vra_forget(p, 0); free(p); }
