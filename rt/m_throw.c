/* libstdc++ throw helpers: reaching one is reported (they are never expected in the bounded runs). */
#include "vll_rt.h"
#define T(name) void name(void* s){ vll_fatal_ok = 0; vll_abort(); }
T(_ZSt20__throw_length_errorPKc) T(_ZSt19__throw_logic_errorPKc) T(_ZSt24__throw_out_of_range_fmtPKcz) T(_ZSt20__throw_out_of_rangePKc)
T(_ZSt24__throw_invalid_argumentPKc)
void _ZSt28__throw_bad_array_new_lengthv(void){ vll_fatal_ok = 0; vll_abort(); }
void _ZSt17__throw_bad_allocv(void){ vll_fatal_ok = 0; vll_abort(); }
void _ZSt25__throw_bad_function_callv(void){ vll_fatal_ok = 0; vll_abort(); }
void _ZSt16__throw_bad_castv(void){ vll_fatal_ok = 0; vll_abort(); }
const char* _ZNKSt9bad_alloc4whatEv(void* self){ return "std::bad_alloc"; }
const char* _ZNKSt9exception4whatEv(void* self){ return "std::exception"; }
void _ZSt20__throw_system_errori(int e){ vll_fatal_ok = 0; vll_abort(); }
