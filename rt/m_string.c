/* C models of the libstdc++ std::string members that live out-of-line in libstdc++.so (extern templates), over
 * the REAL object layout { char* p; size_t len; union { char sso[16]; size_t cap; } }.  Everything inline in the
 * headers (constructors, push_back, append wrappers, operator==, ...) comes through the clang IR for real.
 * Natively the same entry points are provided by libstdc++ itself: the differential validation of each check
 * therefore also compares these models against the real library (the native "real" side does NOT link this file).
 * Allocation failure / max_size errors are outside every claim. */
#include "vll_rt.h"
#define STR(n) _ZNSt7__cxx1112basic_stringIcSt11char_traitsIcESaIcEE##n
#define CSTR(n) _ZNKSt7__cxx1112basic_stringIcSt11char_traitsIcESaIcEE##n
struct vstr { char* p; uint64_t len; union { char sso[16]; uint64_t cap; } u; };
void* _Znwm(uint64_t n); void _ZdlPv(void* p);
#define NPOS (~(uint64_t)0)
#ifndef VLL_STRBLOCK
#define VLL_STRBLOCK 64
#endif
static int is_local(struct vstr* s){ return s->p == s->u.sso; }
static uint64_t capacity(struct vstr* s){ return is_local(s) ? 15 : s->u.cap; }

void* STR(9_M_createERmm)(void* self, uint64_t* cap, uint64_t old){
  if (*cap > old && *cap < 2 * old) *cap = 2 * old;
#ifdef __CPROVER__
  /* CONCRETE block size (a symbolic allocation size makes CBMC's heap encoding explode): strings in the bounded
   * harnesses stay far below it; a larger request is reported, never silently truncated */
  __CPROVER_assert(*cap + 1 <= VLL_STRBLOCK, "check error: string longer than the modelled block (raise VLL_STRBLOCK)");
  return _Znwm(VLL_STRBLOCK);
#else
  return _Znwm(*cap + 1);
#endif
}
static void set_len(struct vstr* s, uint64_t n){ s->len = n; s->p[n] = 0; }
static void dispose(struct vstr* s){ if (!is_local(s)) _ZdlPv(s->p); }
/* _M_mutate(pos, len1, s, len2): reallocate and splice */
void vll_forbidden(void);
void STR(9_M_mutateEmmPKcm)(struct vstr* self, uint64_t pos, uint64_t len1, const char* s, uint64_t len2){
#if defined(__CPROVER__) && defined(VLL_STR_NOGROW)
  /* queries whose strings provably stay within their reserved capacity: growing is reported instead of explored */
  vll_forbidden(); __CPROVER_assume(0);
#endif
  uint64_t how_much = self->len - pos - len1;
  uint64_t new_cap = self->len + len2 - len1;
  char* r = (char*)STR(9_M_createERmm)(self, &new_cap, capacity(self));
  for (uint64_t i = 0; i < pos; i++) r[i] = self->p[i];
  if (s) for (uint64_t i = 0; i < len2; i++) r[pos + i] = s[i];
  for (uint64_t i = 0; i < how_much; i++) r[pos + len2 + i] = self->p[pos + len1 + i];
  dispose(self);
  self->p = r; self->u.cap = new_cap;
}
void* STR(10_M_replaceEmmPKcm)(struct vstr* self, uint64_t pos, uint64_t len1, const char* s, uint64_t len2){
  uint64_t old = self->len, nl = old + len2 - len1;
  if (nl <= capacity(self)) {
    char* p = self->p + pos; uint64_t how_much = old - pos - len1;
    /* source may alias the string: copy through a temporary when it does (bounded strings) */
    char tmp[64]; uint64_t k = len2 < 64 ? len2 : 64;
    for (uint64_t i = 0; i < k; i++) tmp[i] = s[i];
    if (how_much && len1 != len2) {
      if (len2 < len1) for (uint64_t i = 0; i < how_much; i++) p[len2 + i] = p[len1 + i];
      else for (uint64_t i = how_much; i > 0; i--) p[len2 + i - 1] = p[len1 + i - 1];
    }
    for (uint64_t i = 0; i < k; i++) p[i] = tmp[i];
  } else STR(9_M_mutateEmmPKcm)(self, pos, len1, s, len2);
  set_len(self, nl);
  return self;
}
void* STR(14_M_replace_auxEmmmc)(struct vstr* self, uint64_t pos, uint64_t n1, uint64_t n2, char c){
  uint64_t old = self->len, nl = old + n2 - n1;
  if (nl <= capacity(self)) {
    char* p = self->p + pos; uint64_t how_much = old - pos - n1;
    if (how_much && n1 != n2) {
      if (n2 < n1) for (uint64_t i = 0; i < how_much; i++) p[n2 + i] = p[n1 + i];
      else for (uint64_t i = how_much; i > 0; i--) p[n2 + i - 1] = p[n1 + i - 1];
    }
  } else STR(9_M_mutateEmmPKcm)(self, pos, n1, 0, n2);
  for (uint64_t i = 0; i < n2; i++) self->p[pos + i] = c;
  set_len(self, nl);
  return self;
}
void* STR(9_M_appendEPKcm)(struct vstr* self, const char* s, uint64_t n){
  uint64_t len = self->len + n;
  if (len <= capacity(self)) { for (uint64_t i = 0; i < n; i++) self->p[self->len + i] = s[i]; }
  else STR(9_M_mutateEmmPKcm)(self, self->len, 0, s, n);
  set_len(self, len);
  return self;
}
void STR(9_M_assignERKS4_)(struct vstr* self, struct vstr* o){
  if (self == o) return;
  uint64_t n = o->len, cap = capacity(self);
  if (n > cap) { uint64_t nc = n; char* r = (char*)STR(9_M_createERmm)(self, &nc, cap); dispose(self); self->p = r; self->u.cap = nc; }
  for (uint64_t i = 0; i < n; i++) self->p[i] = o->p[i];
  set_len(self, n);
}
void STR(8_M_eraseEmm)(struct vstr* self, uint64_t pos, uint64_t n){
  uint64_t how_much = self->len - pos - n;
  if (how_much && n) for (uint64_t i = 0; i < how_much; i++) self->p[pos + i] = self->p[pos + n + i];
  set_len(self, self->len - n);
}
void STR(7reserveEm)(struct vstr* self, uint64_t res){
  uint64_t cap = capacity(self);
  if (res <= cap) return;
  char* r = (char*)STR(9_M_createERmm)(self, &res, cap);
  for (uint64_t i = 0; i <= self->len; i++) r[i] = self->p[i];
  dispose(self); self->p = r; self->u.cap = res;
}
void STR(12_M_constructEmc)(struct vstr* self, uint64_t n, char c){
  if (n > 15) { uint64_t cap = n; self->p = (char*)STR(9_M_createERmm)(self, &cap, 0); self->u.cap = cap; }
  for (uint64_t i = 0; i < n; i++) self->p[i] = c;
  set_len(self, n);
}
void STR(6resizeEmc)(struct vstr* self, uint64_t n, char c){
  if (n > self->len) STR(14_M_replace_auxEmmmc)(self, self->len, 0, n - self->len, c);
  else if (n < self->len) set_len(self, n);
}
/* ---- searches ---- */
uint64_t CSTR(4findEcm)(struct vstr* self, char c, uint64_t pos){
  for (uint64_t i = pos; i < self->len; i++) if (self->p[i] == c) return i;
  return NPOS;
}
uint64_t CSTR(4findEPKcmm)(struct vstr* self, const char* s, uint64_t pos, uint64_t n){
  if (n == 0) return pos <= self->len ? pos : NPOS;
  if (pos >= self->len) return NPOS;
  for (uint64_t i = pos; i + n <= self->len; i++) { int ok = 1; for (uint64_t j = 0; j < n; j++) if (self->p[i + j] != s[j]) { ok = 0; break; } if (ok) return i; }
  return NPOS;
}
uint64_t CSTR(5rfindEcm)(struct vstr* self, char c, uint64_t pos){
  uint64_t n = self->len; if (!n) return NPOS;
  if (--n > pos) n = pos;
  for (uint64_t i = n + 1; i > 0; i--) if (self->p[i - 1] == c) return i - 1;
  return NPOS;
}
int32_t CSTR(7compareEPKc)(struct vstr* self, const char* s){
  uint64_t n = strlen(s), m = self->len, k = m < n ? m : n;
  for (uint64_t i = 0; i < k; i++) if (self->p[i] != s[i]) return (unsigned char)self->p[i] < (unsigned char)s[i] ? -1 : 1;
  return m < n ? -1 : m > n ? 1 : 0;
}
int32_t CSTR(7compareERKS4_)(struct vstr* self, struct vstr* o){
  uint64_t n = o->len, m = self->len, k = m < n ? m : n;
  for (uint64_t i = 0; i < k; i++) if (self->p[i] != o->p[i]) return (unsigned char)self->p[i] < (unsigned char)o->p[i] ? -1 : 1;
  return m < n ? -1 : m > n ? 1 : 0;
}

/* copy constructor / destructor / move assignment (declared extern template, not inlined at -O1) */
void STR(C2ERKS4_)(struct vstr* self, struct vstr* o){
  self->p = self->u.sso; self->len = 0; self->u.sso[0] = 0;
  STR(9_M_assignERKS4_)(self, o);
}
void STR(D2Ev)(struct vstr* self){ dispose(self); }
void* STR(aSEOS4_)(struct vstr* self, struct vstr* o){
  if (self == o) return self;
  if (is_local(o)) { for (uint64_t i = 0; i <= o->len; i++) self->p[i] = o->p[i]; self->len = o->len; }
  else { dispose(self); self->p = o->p; self->len = o->len; self->u.cap = o->u.cap; o->p = o->u.sso; }
  o->len = 0; o->p[0] = 0;
  return self;
}
