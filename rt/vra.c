/* Memory-model shim: view-based operational semantics of the release/acquire/relaxed fragment of
 * C++11 (RC11 reading), plus a vector-clock race detector for non-atomic shared objects.
 *
 * Every atomic instruction of the real code is redirected here by engine/irpass.py with the memory order
 * found in the IR.  A load returns ANY message the thread is still allowed to read (solver's choice via
 * vnd_range), not just the latest one.
 *
 *   ord: 0 relaxed, 1 acquire, 2 release, 3 acq_rel, 4 seq_cst
 *   seq_cst is approximated: store = release, load = acquire that reads the latest message, RMW = acq_rel
 *   (under-approximation for locations that mix SC and weaker accesses; stated in the evidence).
 *   A new store is always placed last in modification order (exact for single-writer locations and
 *   RMW-only locations).
 *
 * -DVRA_SC gives the trivial sequentially-consistent, latest-value semantics (used by single-threaded
 * harnesses that merely touch atomics).
 */
#include "vll_rt.h"

#define VRA_ERR_CAP   9002   /* table too small: a check ERROR, never success and never a violation */
#define VRA_ERR_RACE  9001   /* data race on a non-atomic object: violation */
#define VRA_ERR_DEAD  9003   /* atomic access inside a freed block: violation */

static void vra_fail(uint32_t code){
#ifdef __CPROVER__
#ifndef WITNESS
  if (code == VRA_ERR_CAP) __CPROVER_assert(0, "vra capacity exceeded (check error)");
  else if (code == VRA_ERR_RACE) __CPROVER_assert(0, "data race");
  else __CPROVER_assert(0, "atomic access to freed memory");
#endif
  __CPROVER_assume(0);
#else
  vassert_at(0, code);
#endif
}

static uint64_t vmask(uint32_t bits){ return bits >= 64 ? ~(uint64_t)0 : (((uint64_t)1 << bits) - 1); }
static uint64_t vmem_read(void* p, uint32_t bits){
  if (bits <= 8) return *(uint8_t*)p; if (bits <= 16) return *(uint16_t*)p; if (bits <= 32) return *(uint32_t*)p; return *(uint64_t*)p;
}
static void vmem_write(void* p, uint64_t v, uint32_t bits){
  if (bits <= 8) *(uint8_t*)p = (uint8_t)v; else if (bits <= 16) *(uint16_t*)p = (uint16_t)v; else if (bits <= 32) *(uint32_t*)p = (uint32_t)v; else *(uint64_t*)p = v;
}
static uint64_t vrmw_apply(uint32_t op, uint64_t old, uint64_t v){
  switch (op) { case 0: return v; case 1: return old + v; case 2: return old - v; case 3: return old & v; case 4: return old | v; default: return old ^ v; }
}

#ifdef VRA_SC
/* ------------------------------------------------------------------ SC / latest-value mode */
uint64_t vra_load(void* p, uint32_t bits, uint32_t ord){ return vmem_read(p, bits); }
void vra_store(void* p, uint64_t v, uint32_t bits, uint32_t ord){ vmem_write(p, v, bits); }
uint64_t vra_rmw(void* p, uint32_t op, uint64_t v, uint32_t bits, uint32_t ord){
  uint64_t old = vmem_read(p, bits); vmem_write(p, vrmw_apply(op, old, v) & vmask(bits), bits); return old; }
uint64_t vra_cas(void* p, uint64_t e, uint64_t n, uint32_t bits, uint32_t os, uint32_t of){
  uint64_t old = vmem_read(p, bits); if (old == (e & vmask(bits))) vmem_write(p, n, bits); return old; }
void vra_fence(uint32_t ord){}
void vra_set_thread(uint32_t t){}
uint32_t vra_thread(void){ return 0; }
void vra_na_read(uint32_t o){}
void vra_na_write(uint32_t o){}
void vra_forget(void* p, uint64_t len){}
void vra_register(void* p, uint32_t bits){}
uint32_t vra_stale_reads(void){ return 0; }
#else
/* ------------------------------------------------------------------ release/acquire mode */
#ifndef VRA_MAXLOC
#define VRA_MAXLOC 4
#endif
#ifndef VRA_MAXMSG
#define VRA_MAXMSG 8
#endif
#ifndef VRA_MAXTHR
#define VRA_MAXTHR 2
#endif
#ifndef VRA_MAXOBJ
#define VRA_MAXOBJ 16
#endif
typedef uint8_t ts_t;
static void* l_addr[VRA_MAXLOC]; static uint8_t l_dead[VRA_MAXLOC]; static uint32_t l_cnt;
static uint64_t m_val[VRA_MAXLOC][VRA_MAXMSG]; static ts_t m_cnt[VRA_MAXLOC];
static ts_t m_view[VRA_MAXLOC][VRA_MAXMSG][VRA_MAXLOC];
static ts_t m_vc[VRA_MAXLOC][VRA_MAXMSG][VRA_MAXTHR];
static ts_t t_view[VRA_MAXTHR][VRA_MAXLOC];
static ts_t t_vc[VRA_MAXTHR][VRA_MAXTHR];
static uint32_t cur; static int inited; static uint32_t stale;
static ts_t o_wt[VRA_MAXOBJ], o_wc[VRA_MAXOBJ]; static ts_t o_rc[VRA_MAXOBJ][VRA_MAXTHR];

static void vra_init(void){
  if (inited) return; inited = 1;
  for (uint32_t t = 0; t < VRA_MAXTHR; t++) t_vc[t][t] = 1;
}
void vra_set_thread(uint32_t t){ vra_init(); if (t >= VRA_MAXTHR) vra_fail(VRA_ERR_CAP); cur = t; }
uint32_t vra_thread(void){ return cur; }
uint32_t vra_stale_reads(void){ return stale; }

static uint32_t vra_loc(void* p, uint32_t bits){
  vra_init();
  for (uint32_t i = 0; i < VRA_MAXLOC; i++)
    if (i < l_cnt && l_addr[i] == p) { if (l_dead[i]) vra_fail(VRA_ERR_DEAD); return i; }
  if (l_cnt >= VRA_MAXLOC) vra_fail(VRA_ERR_CAP);
  uint32_t L = l_cnt++;
  for (uint32_t i = 0; i < VRA_MAXLOC; i++) if (i == L) { l_addr[i] = p; m_cnt[i] = 1; m_val[i][0] = vmem_read(p, bits); }   /* initial message: non-atomic initialisation, visible to all */
  return L;
}
void vra_register(void* p, uint32_t bits){ (void)vra_loc(p, bits); }
static int acq(uint32_t o){ return o == 1 || o == 3 || o == 4; }
static int rel(uint32_t o){ return o == 2 || o == 3 || o == 4; }
/* All table accesses below use CONSTANT indices inside fully unrolled loops guarded by (index == symbolic):
 * this gives the SAT back end plain multiplexers instead of array-theory constraints (4x fewer variables). */
struct vmsg { uint64_t val; ts_t view[VRA_MAXLOC]; ts_t vc[VRA_MAXTHR]; };
static struct vmsg get_msg(uint32_t L, uint32_t k){
  struct vmsg r; memset(&r, 0, sizeof r);
  for (uint32_t l = 0; l < VRA_MAXLOC; l++) if (l == L)
    for (uint32_t j = 0; j < VRA_MAXMSG; j++) if (j == k) {
      r.val = m_val[l][j];
      for (uint32_t i = 0; i < VRA_MAXLOC; i++) r.view[i] = m_view[l][j][i];
      for (uint32_t t = 0; t < VRA_MAXTHR; t++) r.vc[t] = m_vc[l][j][t];
    }
  return r;
}
static ts_t get_cnt(uint32_t L){ ts_t r = 0; for (uint32_t l = 0; l < VRA_MAXLOC; l++) if (l == L) r = m_cnt[l]; return r; }
static ts_t get_tview(uint32_t L){ ts_t r = 0; for (uint32_t t = 0; t < VRA_MAXTHR; t++) if (t == cur) for (uint32_t l = 0; l < VRA_MAXLOC; l++) if (l == L) r = t_view[t][l]; return r; }
static void set_tview(uint32_t L, ts_t v){ for (uint32_t t = 0; t < VRA_MAXTHR; t++) if (t == cur) for (uint32_t l = 0; l < VRA_MAXLOC; l++) if (l == L) t_view[t][l] = v; }
static void join_msg(struct vmsg* m){
  for (uint32_t t = 0; t < VRA_MAXTHR; t++) if (t == cur) {
    for (uint32_t i = 0; i < VRA_MAXLOC; i++) if (m->view[i] > t_view[t][i]) t_view[t][i] = m->view[i];
    for (uint32_t u = 0; u < VRA_MAXTHR; u++) if (m->vc[u] > t_vc[t][u]) t_vc[t][u] = m->vc[u];
  }
}
/* append a message written by the current thread; `from` = message read by an RMW (release sequence) or 0 */
static void push_msg(uint32_t L, uint64_t v, uint32_t ord, struct vmsg* from){
  uint32_t k = get_cnt(L);
  if (k >= VRA_MAXMSG) vra_fail(VRA_ERR_CAP);
  set_tview(L, (ts_t)k);
  struct vmsg n; memset(&n, 0, sizeof n); n.val = v;
  for (uint32_t t = 0; t < VRA_MAXTHR; t++) if (t == cur) {
    for (uint32_t i = 0; i < VRA_MAXLOC; i++) { ts_t a = rel(ord) ? t_view[t][i] : 0, b = from ? from->view[i] : 0; n.view[i] = a > b ? a : b; }
    for (uint32_t u = 0; u < VRA_MAXTHR; u++) { ts_t a = rel(ord) ? t_vc[t][u] : 0, b = from ? from->vc[u] : 0; n.vc[u] = a > b ? a : b; }
    if (rel(ord)) t_vc[t][t]++;
  }
  for (uint32_t l = 0; l < VRA_MAXLOC; l++) if (l == L) {
    m_cnt[l] = (ts_t)(k + 1);
    for (uint32_t j = 0; j < VRA_MAXMSG; j++) if (j == k) {
      m_val[l][j] = n.val;
      for (uint32_t i = 0; i < VRA_MAXLOC; i++) m_view[l][j][i] = (i == l) ? (ts_t)k : n.view[i];
      for (uint32_t u = 0; u < VRA_MAXTHR; u++) m_vc[l][j][u] = n.vc[u];
    }
  }
}
uint64_t vra_load(void* p, uint32_t bits, uint32_t ord){
  uint32_t L = vra_loc(p, bits);
  uint32_t last = (uint32_t)get_cnt(L) - 1;
  uint32_t k = (ord == 4) ? last : (uint32_t)vnd_range(get_tview(L), last);
  if (k != last) stale++;
  set_tview(L, (ts_t)k);
  struct vmsg m = get_msg(L, k);
  if (acq(ord)) join_msg(&m);
  return m.val & vmask(bits);
}
void vra_store(void* p, uint64_t v, uint32_t bits, uint32_t ord){
  uint32_t L = vra_loc(p, bits);
  push_msg(L, v & vmask(bits), ord, 0);
  vmem_write(p, v, bits);
}
uint64_t vra_rmw(void* p, uint32_t op, uint64_t v, uint32_t bits, uint32_t ord){
  uint32_t L = vra_loc(p, bits); uint32_t k = (uint32_t)get_cnt(L) - 1;
  struct vmsg m = get_msg(L, k);
  set_tview(L, (ts_t)k);
  if (acq(ord)) join_msg(&m);
  uint64_t nv = vrmw_apply(op, m.val, v) & vmask(bits);
  push_msg(L, nv, ord, &m);
  vmem_write(p, nv, bits);
  return m.val;
}
uint64_t vra_cas(void* p, uint64_t e, uint64_t n, uint32_t bits, uint32_t os, uint32_t of){
  uint32_t L = vra_loc(p, bits); uint32_t last = (uint32_t)get_cnt(L) - 1;
  e &= vmask(bits);
  uint32_t k = (uint32_t)vnd_range(get_tview(L), last);
  struct vmsg m = get_msg(L, k);
  if (k == last && m.val == e) {
    set_tview(L, (ts_t)k); if (acq(os)) join_msg(&m);
    push_msg(L, n & vmask(bits), os, &m); vmem_write(p, n, bits);
    return m.val;
  }
  vassume(m.val != e);              /* a strong CAS does not fail on the expected value */
  if (k != last) stale++;
  set_tview(L, (ts_t)k); if (acq(of)) join_msg(&m);
  return m.val;
}
void vra_fence(uint32_t ord){ vra_fail(VRA_ERR_CAP); /* no fences in quill; reaching one is a check error */ }

static int na_check(uint32_t o, int is_write){
  int race = 0;
  for (uint32_t t = 0; t < VRA_MAXTHR; t++) if (t == cur)
    for (uint32_t j = 0; j < VRA_MAXOBJ; j++) if (j == o) {
      for (uint32_t u = 0; u < VRA_MAXTHR; u++) {
        if (u != t && o_wc[j] != 0 && o_wt[j] == u && o_wc[j] > t_vc[t][u]) race = 1;
        if (is_write && u != t && o_rc[j][u] > t_vc[t][u]) race = 1;
      }
      if (is_write) { o_wt[j] = (ts_t)t; o_wc[j] = t_vc[t][t]; } else o_rc[j][t] = t_vc[t][t];
    }
  return race;
}
void vra_na_write(uint32_t o){
  vra_init();
  if (o >= VRA_MAXOBJ) vra_fail(VRA_ERR_CAP);
  if (na_check(o, 1)) vra_fail(VRA_ERR_RACE);
}
void vra_na_read(uint32_t o){
  vra_init();
  if (o >= VRA_MAXOBJ) vra_fail(VRA_ERR_CAP);
  if (na_check(o, 0)) vra_fail(VRA_ERR_RACE);
}
void vra_forget(void* p, uint64_t len){
  for (uint32_t i = 0; i < VRA_MAXLOC; i++)
#ifdef __CPROVER__
    if (i < l_cnt && __CPROVER_same_object(l_addr[i], p)) l_dead[i] = 1;
#else
    if (i < l_cnt && (char*)l_addr[i] >= (char*)p && (char*)l_addr[i] < (char*)p + len) l_dead[i] = 1;
#endif
}
#endif
