/* Memory-model shim: view-based operational semantics of the release/acquire/relaxed fragment of
 * C++11 (RC11 reading), plus a vector-clock race detector for non-atomic shared objects.
 *
 * Every atomic instruction of the real code is redirected here by engine/irpass.py with the memory order
 * found in the IR.  A load returns ANY message the thread is still allowed to read (solver's choice via
 * vnd_range), not just the latest one.
 *
 *   ord: 0 relaxed, 1 acquire, 2 release, 3 acq_rel, 4 seq_cst
 *   seq_cst is approximated: store = release, load = acquire that reads the latest message, RMW = acq_rel
 *   (under-approximation for locations that mix SC and weaker accesses; stated in the evidence).
 *   A new store is always placed last in modification order (exact for single-writer locations and
 *   RMW-only locations).
 *
 * -DVRA_SC gives the trivial sequentially-consistent, latest-value semantics (used by single-threaded
 * harnesses that merely touch atomics).
 */
#include "vll_rt.h"
#ifdef __CPROVER__
/* the shim's own table accesses use constant, in-range indices: do not generate ~100k trivially true VCCs for them */
#pragma CPROVER check push
#pragma CPROVER check disable "bounds"
#pragma CPROVER check disable "pointer"
#pragma CPROVER check disable "pointer-primitive"
#pragma CPROVER check disable "signed-overflow"
#pragma CPROVER check disable "undefined-shift"
#pragma CPROVER check disable "conversion"
#pragma CPROVER check disable "div-by-zero"
#endif

#define VRA_ERR_CAP   9002   /* table too small: a check ERROR, never success and never a violation */
#define VRA_ERR_RACE  9001   /* data race on a non-atomic object: violation */
#define VRA_ERR_DEAD  9003   /* atomic access inside a freed block: violation */

static void vra_fail(uint32_t code){
#ifdef __CPROVER__
#ifndef WITNESS
  if (code == VRA_ERR_CAP) __CPROVER_assert(0, "vra capacity exceeded (check error)");
  else if (code == VRA_ERR_RACE) __CPROVER_assert(0, "data race");
  else __CPROVER_assert(0, "atomic access to freed memory");
#endif
  __CPROVER_assume(0);
#else
  vassert_at(0, code);
#endif
}

static uint64_t vmask(uint32_t bits){ return bits >= 64 ? ~(uint64_t)0 : (((uint64_t)1 << bits) - 1); }
static uint64_t vmem_read(void* p, uint32_t bits){
  if (bits <= 8) return *(uint8_t*)p; if (bits <= 16) return *(uint16_t*)p; if (bits <= 32) return *(uint32_t*)p; return *(uint64_t*)p;
}
static void vmem_write(void* p, uint64_t v, uint32_t bits){
  if (bits <= 8) *(uint8_t*)p = (uint8_t)v; else if (bits <= 16) *(uint16_t*)p = (uint16_t)v; else if (bits <= 32) *(uint32_t*)p = (uint32_t)v; else *(uint64_t*)p = v;
}
static uint64_t vrmw_apply(uint32_t op, uint64_t old, uint64_t v){
  switch (op) { case 0: return v; case 1: return old + v; case 2: return old - v; case 3: return old & v; case 4: return old | v; default: return old ^ v; }
}

#ifdef VRA_SC
/* ------------------------------------------------------------------ SC / latest-value mode */
uint64_t vra_load(void* p, uint32_t bits, uint32_t ord){ return vmem_read(p, bits); }
void vra_store(void* p, uint64_t v, uint32_t bits, uint32_t ord){ vmem_write(p, v, bits); }
uint64_t vra_rmw(void* p, uint32_t op, uint64_t v, uint32_t bits, uint32_t ord){
  uint64_t old = vmem_read(p, bits); vmem_write(p, vrmw_apply(op, old, v) & vmask(bits), bits); return old; }
uint64_t vra_cas(void* p, uint64_t e, uint64_t n, uint32_t bits, uint32_t os, uint32_t of){
  uint64_t old = vmem_read(p, bits); if (old == (e & vmask(bits))) vmem_write(p, n, bits); return old; }
void vra_fence(uint32_t ord){}
void vra_set_thread(uint32_t t){}
uint32_t vra_thread(void){ return 0; }
void vra_na_read(uint32_t o){}
void vra_na_write(uint32_t o){}
void vra_forget(void* p, uint64_t len){}
int vra_loc_overflow_prunes;
void vra_register(void* p, uint32_t bits){}
uint32_t vra_stale_reads(void){ return 0; }
#else
/* ------------------------------------------------------------------ release/acquire mode */
#ifndef VRA_MAXLOC
#define VRA_MAXLOC 4
#endif
#ifndef VRA_MAXMSG
#define VRA_MAXMSG 8
#endif
#ifndef VRA_MAXTHR
#define VRA_MAXTHR 2
#endif
#ifndef VRA_MAXOBJ
#define VRA_MAXOBJ 16
#endif
typedef uint8_t ts_t;
#define VRA_NOTHR 0xff
#define SEL(c, a, b) ((c) ? (a) : (b))          /* branch-free select: multiplexers for SAT, no path fork in --paths mode */
/* Vector-clock formulation of release/acquire: every store gets an epoch (writer thread, writer clock); a thread
 * "knows" a message when its vector clock covers that epoch (the store happens-before the thread's current point);
 * coherence: a load may return any message that is not mo-older than (a) a message the thread knows and (b) a
 * message the thread has already read or written (t_view).  Release messages carry the writer's vector clock,
 * acquire loads join it.  All table accesses use CONSTANT indices inside fully unrolled loops. */
static void* l_addr[VRA_MAXLOC]; static uint8_t l_dead[VRA_MAXLOC]; static uint32_t l_cnt;
static uint64_t m_val[VRA_MAXLOC][VRA_MAXMSG]; static ts_t m_cnt[VRA_MAXLOC];
static ts_t m_thr[VRA_MAXLOC][VRA_MAXMSG], m_clk[VRA_MAXLOC][VRA_MAXMSG];
static ts_t m_vc[VRA_MAXLOC][VRA_MAXMSG][VRA_MAXTHR];
static ts_t t_view[VRA_MAXTHR][VRA_MAXLOC];
static ts_t t_vc[VRA_MAXTHR][VRA_MAXTHR];
static uint32_t cur; static int inited; static uint32_t stale;
int vra_loc_overflow_prunes;   /* harness: more atomic locations than VRA_MAXLOC ends the path (a STATED bound, e.g. number of queue nodes) */
static ts_t o_wt[VRA_MAXOBJ], o_wc[VRA_MAXOBJ]; static ts_t o_rc[VRA_MAXOBJ][VRA_MAXTHR];

static void vra_init(void){
  if (inited) return; inited = 1;
  for (uint32_t t = 0; t < VRA_MAXTHR; t++) t_vc[t][t] = 1;
}
void vra_set_thread(uint32_t t){ vra_init(); if (t >= VRA_MAXTHR) vra_fail(VRA_ERR_CAP); cur = t; }
uint32_t vra_thread(void){ return cur; }
uint32_t vra_stale_reads(void){ return stale; }

static uint32_t vra_loc(void* p, uint32_t bits){
  vra_init();
  for (uint32_t i = 0; i < VRA_MAXLOC; i++)
    if (i < l_cnt && l_addr[i] == p) { if (l_dead[i]) vra_fail(VRA_ERR_DEAD); return i; }
  if (l_cnt >= VRA_MAXLOC) { if (vra_loc_overflow_prunes) vassume(0); vra_fail(VRA_ERR_CAP); }
  uint32_t L = l_cnt++;
  /* initial message: non-atomic initialisation, known to every thread */
  for (uint32_t i = 0; i < VRA_MAXLOC; i++) if (i == L) { l_addr[i] = p; m_cnt[i] = 1; m_val[i][0] = vmem_read(p, bits); m_thr[i][0] = VRA_NOTHR; m_clk[i][0] = 0; }
  return L;
}
void vra_register(void* p, uint32_t bits){ (void)vra_loc(p, bits); }
static int acq(uint32_t o){ return o == 1 || o == 3 || o == 4; }
static int rel(uint32_t o){ return o == 2 || o == 3 || o == 4; }

struct vrow { ts_t cnt; ts_t thr[VRA_MAXMSG], clk[VRA_MAXMSG]; ts_t view; ts_t myvc[VRA_MAXTHR]; };
struct vmsg { uint64_t val; ts_t vc[VRA_MAXTHR]; };
/* row L of the small tables + current thread's view/clock (all selected with constant indices) */
static struct vrow get_row(uint32_t L){
  struct vrow r; memset(&r, 0, sizeof r);
  for (uint32_t l = 0; l < VRA_MAXLOC; l++) {
    int h = (l == L);
    r.cnt = SEL(h, m_cnt[l], r.cnt);
    for (uint32_t j = 0; j < VRA_MAXMSG; j++) { r.thr[j] = SEL(h, m_thr[l][j], r.thr[j]); r.clk[j] = SEL(h, m_clk[l][j], r.clk[j]); }
    for (uint32_t t = 0; t < VRA_MAXTHR; t++) r.view = SEL(h & (t == cur), t_view[t][l], r.view);
  }
  for (uint32_t t = 0; t < VRA_MAXTHR; t++) for (uint32_t u = 0; u < VRA_MAXTHR; u++) r.myvc[u] = SEL(t == cur, t_vc[t][u], r.myvc[u]);
  return r;
}
/* oldest message the current thread may still read at this location */
static uint32_t lower_bound(struct vrow* r){
  uint32_t lo = r->view;
  for (uint32_t j = 0; j < VRA_MAXMSG; j++) {
    int known = 0;
    for (uint32_t u = 0; u < VRA_MAXTHR; u++) known |= (r->thr[j] == u) & (u != cur) & (r->clk[j] <= r->myvc[u]);
    lo = SEL((j < r->cnt) & known & (j > lo), j, lo);
  }
  return lo;
}
static struct vmsg get_msg(uint32_t L, uint32_t k){
  struct vmsg r; memset(&r, 0, sizeof r);
  for (uint32_t l = 0; l < VRA_MAXLOC; l++)
    for (uint32_t j = 0; j < VRA_MAXMSG; j++) {
      int hit = (l == L) & (j == k);
      r.val = SEL(hit, m_val[l][j], r.val);
      for (uint32_t t = 0; t < VRA_MAXTHR; t++) r.vc[t] = SEL(hit, m_vc[l][j][t], r.vc[t]);
    }
  return r;
}
static void set_tview(uint32_t L, ts_t v){ for (uint32_t t = 0; t < VRA_MAXTHR; t++) for (uint32_t l = 0; l < VRA_MAXLOC; l++) t_view[t][l] = SEL((t == cur) & (l == L), v, t_view[t][l]); }
static void join_msg(struct vmsg* m){
  for (uint32_t t = 0; t < VRA_MAXTHR; t++)
    for (uint32_t u = 0; u < VRA_MAXTHR; u++) t_vc[t][u] = SEL((t == cur) & (m->vc[u] > t_vc[t][u]), m->vc[u], t_vc[t][u]);
}
/* append a message written by the current thread; `from` = message read by an RMW (release sequence) or 0 */
static void push_msg(uint32_t L, struct vrow* row, uint64_t v, uint32_t ord, struct vmsg* from){
  uint32_t k = row->cnt;
  if (k >= VRA_MAXMSG) vra_fail(VRA_ERR_CAP);
  set_tview(L, (ts_t)k);
  int r = rel(ord);
  ts_t nvc[VRA_MAXTHR]; ts_t myclk = 0;
  for (uint32_t u = 0; u < VRA_MAXTHR; u++) { ts_t a = 0, b = from ? from->vc[u] : 0; for (uint32_t t = 0; t < VRA_MAXTHR; t++) a = SEL((t == cur) & r, t_vc[t][u], a); nvc[u] = SEL(a > b, a, b); }
  for (uint32_t t = 0; t < VRA_MAXTHR; t++) { myclk = SEL(t == cur, t_vc[t][t], myclk); t_vc[t][t] = SEL(t == cur, (ts_t)(t_vc[t][t] + 1), t_vc[t][t]); }
  for (uint32_t l = 0; l < VRA_MAXLOC; l++) {
    m_cnt[l] = SEL(l == L, (ts_t)(k + 1), m_cnt[l]);
    for (uint32_t j = 0; j < VRA_MAXMSG; j++) {
      int hit = (l == L) & (j == k);
      m_val[l][j] = SEL(hit, v, m_val[l][j]);
      m_thr[l][j] = SEL(hit, (ts_t)cur, m_thr[l][j]); m_clk[l][j] = SEL(hit, myclk, m_clk[l][j]);
      for (uint32_t u = 0; u < VRA_MAXTHR; u++) m_vc[l][j][u] = SEL(hit, nvc[u], m_vc[l][j][u]);
    }
  }
}
uint64_t vra_load(void* p, uint32_t bits, uint32_t ord){
  uint32_t L = vra_loc(p, bits);
  struct vrow row = get_row(L);
  uint32_t last = (uint32_t)row.cnt - 1;
  uint32_t k = (ord == 4) ? last : (uint32_t)vnd_range(lower_bound(&row), last);
  stale += (k != last);
  set_tview(L, (ts_t)k);
  struct vmsg m = get_msg(L, k);
  if (acq(ord)) join_msg(&m);
  return m.val & vmask(bits);
}
void vra_store(void* p, uint64_t v, uint32_t bits, uint32_t ord){
  uint32_t L = vra_loc(p, bits);
  struct vrow row = get_row(L);
  push_msg(L, &row, v & vmask(bits), ord, 0);
  vmem_write(p, v, bits);
}
uint64_t vra_rmw(void* p, uint32_t op, uint64_t v, uint32_t bits, uint32_t ord){
  uint32_t L = vra_loc(p, bits);
  struct vrow row = get_row(L); uint32_t k = (uint32_t)row.cnt - 1;
  struct vmsg m = get_msg(L, k);
  if (acq(ord)) join_msg(&m);
  uint64_t nv = vrmw_apply(op, m.val, v) & vmask(bits);
  push_msg(L, &row, nv, ord, &m);
  vmem_write(p, nv, bits);
  return m.val;
}
uint64_t vra_cas(void* p, uint64_t e, uint64_t n, uint32_t bits, uint32_t os, uint32_t of){
  uint32_t L = vra_loc(p, bits);
  struct vrow row = get_row(L); uint32_t last = (uint32_t)row.cnt - 1;
  e &= vmask(bits);
  uint32_t k = (uint32_t)vnd_range(lower_bound(&row), last);
  struct vmsg m = get_msg(L, k);
  if (k == last && m.val == e) {
    if (acq(os)) join_msg(&m);
    push_msg(L, &row, n & vmask(bits), os, &m); vmem_write(p, n, bits);
    return m.val;
  }
  vassume(m.val != e);              /* a strong CAS does not fail on the expected value */
  stale += (k != last);
  set_tview(L, (ts_t)k); if (acq(of)) join_msg(&m);
  return m.val;
}
void vra_fence(uint32_t ord){ vra_fail(VRA_ERR_CAP); /* no fences in quill; reaching one is a check error */ }

static int na_check(uint32_t o, int is_write){
  int race = 0;
  for (uint32_t t = 0; t < VRA_MAXTHR; t++)
    for (uint32_t j = 0; j < VRA_MAXOBJ; j++) {
      int hit = (t == cur) & (j == o);
      for (uint32_t u = 0; u < VRA_MAXTHR; u++) {
        race |= hit & (u != t) & (o_wc[j] != 0) & (o_wt[j] == u) & (o_wc[j] > t_vc[t][u]);
        race |= hit & (is_write != 0) & (u != t) & (o_rc[j][u] > t_vc[t][u]);
      }
      o_wt[j] = SEL(hit & (is_write != 0), (ts_t)t, o_wt[j]);
      o_wc[j] = SEL(hit & (is_write != 0), t_vc[t][t], o_wc[j]);
      o_rc[j][t] = SEL(hit & (is_write == 0), t_vc[t][t], o_rc[j][t]);
    }
  return race;
}
void vra_na_write(uint32_t o){
  vra_init();
  if (o >= VRA_MAXOBJ) vra_fail(VRA_ERR_CAP);
  if (na_check(o, 1)) vra_fail(VRA_ERR_RACE);
}
void vra_na_read(uint32_t o){
  vra_init();
  if (o >= VRA_MAXOBJ) vra_fail(VRA_ERR_CAP);
  if (na_check(o, 0)) vra_fail(VRA_ERR_RACE);
}
void vra_forget(void* p, uint64_t len){
  for (uint32_t i = 0; i < VRA_MAXLOC; i++)
#ifdef __CPROVER__
    if (i < l_cnt && __CPROVER_same_object(l_addr[i], p)) l_dead[i] = 1;
#else
    if (i < l_cnt && (char*)l_addr[i] >= (char*)p && (char*)l_addr[i] < (char*)p + len) l_dead[i] = 1;
#endif
}
#endif
#ifdef __CPROVER__
#pragma CPROVER check pop
#endif
