/* Process / signal environment for C07: every call is an EFFECT reported to the harness (vh_effect), which checks the
 * required order; exit/raise with the default disposition do not return (the path ends after the harness has judged it). */
#include "vll_rt.h"
#ifndef __CPROVER__
#include <stdio.h>
#include <unistd.h>
#endif
void vh_effect(uint32_t kind, int64_t arg);
uint32_t vh_tid(void);
enum { E_EXIT = 1, E_SIGNAL_DFL = 2, E_RAISE = 3, E_ALARM = 4, E_PAUSE = 5, E_SLEEP = 6 };
static void stop(void){
#ifdef __CPROVER__
  __CPROVER_assume(0);
#else
  fflush(0); _exit(0);
#endif
}
void exit(int code){ vh_effect(E_EXIT, code); stop(); }
void* signal(int sig, void* h){ vh_effect(E_SIGNAL_DFL, h == 0 ? sig : -sig); return 0; }
int raise(int sig){ vh_effect(E_RAISE, sig); stop(); return 0; }
unsigned alarm(unsigned s){ vh_effect(E_ALARM, s); return 0; }
int pause(void){ vh_effect(E_PAUSE, 0); stop(); return 0; }
int nanosleep(const void* a, void* b){ vh_effect(E_SLEEP, 0); return 0; }
char* strsignal(int sig){ return "sig"; }
long syscall(long n, ...){ return vh_tid(); }
