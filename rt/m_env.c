/* Environment entry points that exist only in libstdc++/libc (no body in the IR): clock reads return ANY value
 * (callers that need monotonicity constrain it in the harness).  libmodel: natively the real library is linked. */
#include "vll_rt.h"
int64_t vll_now_value; int vll_now_set;        /* a harness may pin what the clocks return */
int64_t _ZNSt6chrono3_V212system_clock3nowEv(void){ return vll_now_set ? vll_now_value : (int64_t)vnd_u64(); }
int64_t _ZNSt6chrono3_V212steady_clock3nowEv(void){ return (int64_t)vnd_u64(); }
int getpid(void){ return 4242; }                 /* a concrete process id (a symbolic one makes std::to_string produce a symbolic-length string) */
/* sleeping / yielding = a scheduling point: the harness may run other "threads" there (vh_yield, optional) */
#ifdef VLL_YIELD_HOOK
void vh_yield(void);
int nanosleep(const void* req, void* rem){ vh_yield(); return 0; }
int sched_yield(void){ vh_yield(); return 0; }
#endif
