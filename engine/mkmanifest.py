#!/usr/bin/env python3
"""Regenerates MANIFEST.json from props/*.py (each claimed property has a props/<ID>.py with a MANIFEST dict)
and props/not_applicable.json."""
import os, json, importlib.util, glob
V = os.path.dirname(os.path.dirname(os.path.abspath(__file__)))
class Q:
    def __init__(s, *a, **k):
        s.__dict__.update(k)
        for n, v in zip(('name', 'harness', 'entry'), a): setattr(s, n, v)
ids = [json.loads(l)['id'] for l in open(os.path.join(V, 'properties.jsonl'))]
na = json.load(open(os.path.join(V, 'props', 'not_applicable.json')))
checks = []; claimed = []
for pid in ids:
    p = os.path.join(V, 'props', pid + '.py')
    if not os.path.exists(p): continue
    spec = importlib.util.spec_from_file_location('p', p); mod = importlib.util.module_from_spec(spec); mod.Q = Q; spec.loader.exec_module(mod)
    m = getattr(mod, 'MANIFEST', None)
    if not m: continue
    claimed.append(pid)
    checks.append({
        'property_id': pid,
        'quick_cmd': './check %s --tier quick' % pid,
        'thorough_cmd': './check %s --tier thorough' % pid,
        'evidence_file': 'evidence/%s.json' % pid,
        'replay_cmd_template': './check %s --replay {path}' % pid,
        'engine': 'clang-ir-to-cbmc',
        'level_claimed': {'category': 'model_checking', 'text': m['text'], 'design_ref': m.get('design_ref', 'DESIGN.md section 3, ' + pid)},
        'level_note': m['note'],
        'technique': m.get('technique', 'bounded symbolic execution of the real functions (clang IR -> C -> CBMC/SAT), counterexample replayed natively'),
    })
man = {
    'version': 1,
    'setup_cmd': 'python3 engine/selftest.py',
    'hooks': {'guard': 'QUILL_VERIF', 'enable': 'none needed: harnesses reach private state with clang -fno-access-control; no hook commits exist in /repo',
              'baseline_off_cmd': 'cmake -G Ninja -S /repo -B /repo/_build -DQUILL_BUILD_TESTS=ON -DCMAKE_BUILD_TYPE=RelWithDebInfo -DCMAKE_CXX_FLAGS=-Wno-error && cmake --build /repo/_build -j16 && ctest --test-dir /repo/_build -j8 --timeout 900',
              'source_commits': [], 'add_only': True},
    'engines': [{'name': 'clang-ir-to-cbmc', 'path': 'engine/', 'serves_properties': claimed,
                 'kind_free_text': 'clang++-14 -O1 IR of C++ harnesses that include the real quill headers -> irpass.py (atomics -> C++11 release/acquire shim, cuts) -> ll2c.py (own IR->C translator) -> CBMC 6.11 (kissat / path-wise symex); differential translator validation and native replay on every run'}],
    'checks': checks,
    'not_applicable': [x for x in na if x['property_id'] not in claimed],
    'notes': 'All claims are bounded (unwinding assertions on); bounds, cuts and models per query are in each evidence file. Exit 2 = check error/inconclusive (never reported as success). Repaired defects and known findings: known_findings.txt.',
}
json.dump(man, open(os.path.join(V, 'MANIFEST.json'), 'w'), indent=1)
print('claimed', claimed, 'n/a', [x['property_id'] for x in man['not_applicable']])
