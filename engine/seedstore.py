#!/usr/bin/env python3
"""usage: seedstore.py <PID> <seed-dir> <needs> <detected-by | MISSED...> : copies a confirmed seeded change into /verif/seeded/"""
import sys, os, shutil, json, re
pid, sd, needs, det = sys.argv[1:5]
name = os.path.basename(sd.rstrip('/'))
dst = os.path.join('/verif/seeded', '%s-%s' % (pid, name)); os.makedirs(dst, exist_ok=True)
for f in ('patch.diff', 'demo.cpp', 'notes.md', 'confirm.txt', 'demo_api.cpp', 'stress.cpp'):
    if os.path.exists(os.path.join(sd, f)): shutil.copy(os.path.join(sd, f), dst)
conf = open(os.path.join(sd, 'confirm.txt')).read() if os.path.exists(os.path.join(sd, 'confirm.txt')) else ''
meta = {'property': pid, 'name': name, 'needs_to_manifest': needs,
        'confirmed_by_me': {'demo_on_unchanged_tree_rc': (re.search(r'demo on unchanged tree: rc=(\d+)', conf) or [None, None])[1],
                            'demo_on_patched_tree_rc': (re.search(r'demo on patched tree: rc=(\d+)', conf) or [None, None])[1],
                            'existing_tests_with_patch': (re.search(r'(\d+% tests passed, \d+ tests failed out of \d+)', conf) or [None, None])[1],
                            'ran': 'engine/seedconfirm.sh: g++ demo on clean and patched scratch worktree; cmake --build + ctest -j6 in the worktree with the patch; ./check with VERIF_REPO=<patched worktree>'},
        'check_result': det,
        'violations_reported': re.findall(r'VIOLATION property=\S+ replay=\S+', conf)}
json.dump(meta, open(os.path.join(dst, 'meta.json'), 'w'), indent=1)
print(dst, meta['confirmed_by_me'], len(meta['violations_reported']))
