#!/bin/bash
# usage: engine/mutate.sh <PID> <file-relative-to-include/quill> <python-regex-old> <new> [check args...]
# copies /repo/include to a scratch dir, applies ONE textual mutation, runs the check against it (no evidence written)
set -e
pid=$1; file=$2; old=$3; new=$4; shift 4
d=$(mktemp -d /tmp/mut.XXXXXX); mkdir -p $d/include; cp -r /repo/include/quill $d/include/
python3 - "$d/include/quill/$file" "$old" "$new" <<'PY'
import sys,re
p,old,new=sys.argv[1:4]; s=open(p).read(); n=len(re.findall(old,s))
if n!=1: print('MUTATION pattern matches %d times'%n); sys.exit(3)
new=new.replace('\\n','\n'); open(p,'w').write(re.sub(old,lambda m:new,s))
PY
VERIF_REPO=$d python3 /verif/engine/driver.py $pid --no-evidence "$@" 2>&1 | grep -E "^\[|VIOLATION|KNOWN|tier=" | cut -c1-300
rm -rf $d
