#!/usr/bin/env python3
"""setup_cmd: nothing is built ahead of time (every check regenerates its encoding from /repo); this only
verifies that the offline tools the engine needs are present."""
import shutil, sys
missing = [t for t in ('cbmc', 'clang++-14', 'clang-14', 'opt-14', 'gcc', 'kissat', 'python3') if not shutil.which(t)]
if missing: print('missing tools:', missing); sys.exit(1)
print('tools ok')
