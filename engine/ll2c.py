#!/usr/bin/env python3
"""LLVM-14 textual IR (typed pointers, as written by clang++-14 -S -emit-llvm and rewritten by irpass.py)
-> one C file for CBMC's C front end (also compiled natively with gcc for differential validation).
All SSA pointers are void* in C; every IR struct type becomes a C struct with fields f0..fn; arrays are
wrapped in structs.  Only functions reachable from the given entry points are translated.  Anything not
supported raises (the check then reports an ERROR, never success)."""
import re, sys, collections

TOK = re.compile(r'''
   (?P<ws>\s+)
 | (?P<str>c"(?:[^"])*")
 | (?P<qname>[%@]"(?:[^"\\]|\\.)*")
 | (?P<qstr>"(?:[^"\\]|\\.)*")
 | (?P<name>[%@][-a-zA-Z$._0-9]+)
 | (?P<comdat>\$"(?:[^"\\]|\\.)*"|\$[-a-zA-Z$._0-9]+)
 | (?P<meta>![-a-zA-Z$._0-9]*)
 | (?P<attr>\#[0-9]+)
 | (?P<num>-?[0-9]+\.[0-9]+(?:e[+-]?[0-9]+)?|0x[KLMHR]?[0-9A-Fa-f]+|-?[0-9]+)
 | (?P<word>[a-zA-Z_][a-zA-Z_0-9.]*)
 | (?P<dots>\.\.\.)
 | (?P<punct><\{|\}>|[(){}\[\]<>,=*:!])
''', re.X)

def tokenize(s):
    out = []; pos = 0
    while pos < len(s):
        m = TOK.match(s, pos)
        if not m: raise SyntaxError('tok: ' + s[pos:pos+80])
        pos = m.end()
        if m.lastgroup != 'ws': out.append((m.lastgroup, m.group()))
    return out

class T:
    def __init__(s, k, **kw): s.k = k; s.__dict__.update(kw)
    def __repr__(s): return tstr(s)
def tstr(t):
    k = t.k
    if k == 'int': return 'i%d' % t.bits
    if k == 'fp': return t.name
    if k == 'ptr': return tstr(t.to) + '*'
    if k == 'named': return t.name
    if k == 'arr': return '[%d x %s]' % (t.n, tstr(t.el))
    if k == 'struct': return ('<{%s}>' if t.packed else '{%s}') % ', '.join(map(tstr, t.els))
    if k == 'func': return '%s (%s%s)' % (tstr(t.ret), ', '.join(map(tstr, t.args)), ', ...' if t.va else '')
    if k == 'vec': return '<%d x %s>' % (t.n, tstr(t.el))
    return k

class P:
    def __init__(s, toks): s.t = toks; s.i = 0
    def peek(s, o=0): return s.t[s.i+o] if s.i+o < len(s.t) else ('eof', '')
    def next(s): x = s.peek(); s.i += 1; return x
    def at(s, v): return s.peek()[1] == v
    def eat(s, v):
        if s.at(v): s.i += 1; return True
        return False
    def expect(s, v):
        if not s.eat(v): raise SyntaxError('expected %r got %r near: %s' % (v, s.peek(), ' '.join(x[1] for x in s.t[max(0,s.i-8):s.i+8])))

def parse_type(p):
    k, v = p.next()
    if k == 'word' and re.fullmatch(r'i\d+', v): t = T('int', bits=int(v[1:]))
    elif v == 'void': t = T('void')
    elif v in ('float', 'double', 'x86_fp80', 'half', 'fp128'): t = T('fp', name=v)
    elif v in ('label', 'metadata', 'opaque', 'token'): t = T(v)
    elif k in ('name', 'qname') and v[0] == '%': t = T('named', name=v)
    elif v == '[':
        n = int(p.next()[1]); p.expect('x'); el = parse_type(p); p.expect(']'); t = T('arr', n=n, el=el)
    elif v == '<':
        n = int(p.next()[1]); p.expect('x'); el = parse_type(p); p.expect('>'); t = T('vec', n=n, el=el)
    elif v in ('{', '<{'):
        packed = v == '<{'; els = []; close = '}>' if packed else '}'
        if not p.at(close):
            while True:
                els.append(parse_type(p))
                if not p.eat(','): break
        p.expect(close); t = T('struct', els=els, packed=packed)
    else: raise SyntaxError('type? %r' % (v,))
    while True:
        if p.eat('*'): t = T('ptr', to=t)
        elif p.at('('):
            p.next(); args = []; va = False
            if not p.at(')'):
                while True:
                    if p.eat('...'): va = True; break
                    args.append(parse_type(p))
                    if not p.eat(','): break
            p.expect(')'); t = T('func', ret=t, args=args, va=va)
        else: break
    return t

PATTR = {'noundef','nonnull','nocapture','readonly','writeonly','readnone','noalias','signext','zeroext','returned','immarg','nofree','inreg','nest','inrange'}
def skip_pattrs(p):
    res = []
    while True:
        v = p.peek()[1]
        if v in PATTR: p.next(); res.append(v); continue
        if v in ('align', 'dereferenceable', 'dereferenceable_or_null'):
            p.next()
            if p.eat('('): p.next(); p.expect(')')
            else: p.next()
            continue
        if v in ('sret', 'byval', 'byref', 'inalloca', 'preallocated', 'elementtype'):
            p.next(); p.expect('('); t = parse_type(p); p.expect(')'); res.append((v, t)); continue
        return res

class Fn: pass
class Mod: pass

def parse_fn_header(ln):
    p = P(tokenize(ln.rstrip().rstrip('{')))
    p.next()
    while True:
        save = p.i
        try:
            skip_pattrs(p); t = parse_type(p)
            if p.peek()[1].startswith('@'): break
        except (SyntaxError, ValueError): pass
        p.i = save + 1
    f = Fn(); f.ret = t; f.name = p.next()[1]; f.params = []; f.va = False
    p.expect('(')
    if not p.at(')'):
        while True:
            if p.eat('...'): f.va = True; break
            pt = parse_type(p); pa = skip_pattrs(p); nm = None
            if p.peek()[1].startswith('%'): nm = p.next()[1]
            f.params.append((pt, nm, pa))
            if not p.eat(','): break
    p.expect(')')
    f.rest = ' '.join(x[1] for x in p.t[p.i:])
    return f

def parse_module(text):
    m = Mod(); m.exc = '__gxx_personality_v0' in text; m.types = collections.OrderedDict(); m.globals = collections.OrderedDict(); m.funcs = collections.OrderedDict(); m.decls = {}; m.attrs = {}
    lines = text.split('\n'); i = 0
    while i < len(lines):
        ln = lines[i]
        if ln.startswith('%') and ' = type ' in ln:
            name, rhs = ln.split(' = type ', 1)
            m.types[name.strip()] = T('opaque') if rhs.strip() == 'opaque' else parse_type(P(tokenize(rhs)))
        elif ln.startswith('@'):
            m.globals[tokenize(ln)[0][1]] = ln
        elif ln.startswith('define'):
            body = []; j = i + 1
            while lines[j] != '}': body.append(lines[j]); j += 1
            f = parse_fn_header(ln); f.body = body; m.funcs[f.name] = f; i = j
        elif ln.startswith('declare'):
            f = parse_fn_header(ln); f.body = None; m.decls[f.name] = f
        elif ln.startswith('attributes #'):
            mm = re.match(r'attributes (#\d+) = \{(.*)\}', ln); m.attrs[mm.group(1)] = mm.group(2)
        i += 1
    return m

def cid(n):
    n = n[1:]
    if n.startswith('"'): n = n[1:-1]
    return re.sub(r'[^A-Za-z0-9_]', lambda mm: '_%02x' % ord(mm.group()), n)

class Val:  # C expression with LLVM type
    def __init__(s, c, t): s.c = c; s.t = t

class Emit:
    def __init__(s, m, stubs):
        s.m = m; s.stubs = stubs; s.arr_td = collections.OrderedDict(); s.anon = collections.OrderedDict(); s.gtypes = {}
        s.helpers = set()
    # ---- types
    def res(s, t):
        while t.k == 'named': t = s.m.types[t.name]
        return t
    def ctype(s, t):
        k = t.k
        if k == 'int':
            b = t.bits
            for w in (8, 16, 32, 64):
                if b <= w: return 'uint%d_t' % w
            return 'unsigned __int128'
        if k == 'void': return 'void'
        if k == 'fp': return {'float': 'float', 'double': 'double', 'x86_fp80': 'long double'}[t.name]
        if k == 'ptr': return 'void*'
        if k == 'named':
            if s.m.types[t.name].k == 'opaque': return 'char'
            return 'struct S_' + cid(t.name)
        if k == 'struct':
            key = tstr(t)
            if key not in s.anon: s.anon[key] = ('AN%d' % len(s.anon), t)
            return 'struct ' + s.anon[key][0]
        if k == 'arr':
            key = tstr(t)
            if key not in s.arr_td:
                el = s.ctype(t.el)  # ensure inner first
                s.arr_td[key] = ('AR%d' % len(s.arr_td), t)
            return s.arr_td[key][0]
        if k == 'func': return 'char'
        raise NotImplementedError(tstr(t))
    def sct(s, t): # signed ctype for ints
        return s.ctype(t).replace('uint', 'int').replace('unsigned __int128', '__int128')
    # ---- constants / operands
    def parse_val(s, p, t, fn=None):
        k, v = p.next()
        if k == 'name' or k == 'qname':
            if v[0] == '%': return Val('r_' + cid(v), t)
            return Val('((void*)&%s)' % s.gname(v), t) if v not in s.m.funcs and v not in s.m.decls else Val('((void*)%s)' % s.fname(v), t)
        if k == 'num':
            if t.k == 'fp':
                if v.startswith('0x'):
                    s.helpers.add('fpbits')
                    hx = v[2:]
                    if hx[0] in 'KLMHR': raise NotImplementedError('fp80 const')
                    return Val('vll_u2d(0x%sULL)' % hx, t) if t.name == 'double' else Val('((float)vll_u2d(0x%sULL))' % hx, t)
                return Val(v, t)
            iv = int(v, 0)
            if t.k == 'int':
                if iv < 0: iv += 1 << t.bits
                if t.bits > 64: return Val('((unsigned __int128)%dULL)' % iv if iv < 2**64 else '((((unsigned __int128)%dULL)<<64)|%dULL)' % (iv >> 64, iv & (2**64-1)), t)
                return Val('((%s)%dULL)' % (s.ctype(t), iv), t)
            return Val(str(iv), t)
        if v in ('null',): return Val('((void*)0)', t)
        if v in ('true', 'false'): return Val('1' if v == 'true' else '0', t)
        if v in ('undef', 'poison'):
            if s.res(t).k in ('struct', 'arr'): return Val('(%s){0}' % s.ctype(t), t)
            return Val('0', t)
        if v == 'zeroinitializer': return Val('{0}', t) if fn is None else Val('(%s){0}' % s.ctype(t), t)
        if v in ('getelementptr',):
            p.eat('inbounds'); p.expect('(')
            bt = parse_type(p); p.expect(','); pt = parse_type(p); base = s.parse_val(p, pt, fn)
            idx = []
            while p.eat(','):
                skip_pattrs(p); it = parse_type(p); idx.append(s.parse_val(p, it, fn))
            p.expect(')')
            return Val(s.gep(bt, base, idx)[0], t)
        if v in ('bitcast', 'inttoptr', 'ptrtoint', 'addrspacecast', 'trunc', 'zext', 'sext'):
            p.expect('('); ft = parse_type(p); x = s.parse_val(p, ft, fn); p.expect('to'); tt = parse_type(p); p.expect(')')
            return Val(s.cast(v, x, tt), tt)
        if v in ('add', 'sub', 'mul', 'and', 'or', 'xor', 'shl', 'lshr'):
            while p.peek()[1] in ('nuw', 'nsw', 'exact'): p.next()
            p.expect('('); at = parse_type(p); a = s.parse_val(p, at, fn); p.expect(','); bt2 = parse_type(p); b = s.parse_val(p, bt2, fn); p.expect(')')
            return Val(s.binop(v, a, b, at), at)
        if k == 'str':
            raw = v[2:-1]; bs = []
            i = 0
            while i < len(raw):
                if raw[i] == '\\' and raw[i+1] == '\\': bs.append(92); i += 2
                elif raw[i] == '\\': bs.append(int(raw[i+1:i+3], 16)); i += 3
                else: bs.append(ord(raw[i])); i += 1
            return Val('{{%s}}' % ','.join(map(str, bs)) if False else '{%s}' % ','.join(map(str, bs)), t)
        if v in ('{', '<{', '['):
            close = {'{': '}', '<{': '}>', '[': ']'}[v]; els = []
            if not p.at(close):
                while True:
                    et = parse_type(p); els.append(s.parse_val(p, et, fn))
                    if not p.eat(','): break
            p.expect(close)
            inner = ','.join(e.c for e in els)
            return Val('{%s}' % inner if fn is None else '(%s){%s}' % (s.ctype(t), inner), t)
        raise SyntaxError('value? %r %r' % (k, v))
    def gname(s, n): return cid(n) if (cid(n) in RTGLOBALS or cid(n) in LIBCGLOBALS) else 'g_' + cid(n)
    def fname(s, n):
        c = cid(n)
        return c
    def cast(s, op, x, tt):
        ft = x.t
        if op in ('bitcast', 'addrspacecast'):
            if tt.k == 'ptr': return x.c
            if ft.k == tt.k == 'int': return x.c
            s.helpers.add('bits'); return 'VLL_BITCAST(%s,%s,%s)' % (s.ctype(ft), s.ctype(tt), x.c)
        if op == 'inttoptr': return '((void*)(uintptr_t)%s)' % x.c
        if op == 'ptrtoint': return '((%s)(uintptr_t)%s)' % (s.ctype(tt), x.c)
        if op == 'trunc': return s.mask('((%s)%s)' % (s.ctype(tt), x.c), tt)
        if op == 'zext': return '((%s)%s)' % (s.ctype(tt), x.c)
        if op == 'sext':
            if ft.bits == 1: return '((%s)(%s?-1:0))' % (s.ctype(tt), x.c)
            return s.mask('((%s)(%s)%s)' % (s.ctype(tt), s.sct(tt), s.sx(x)), tt)
        if op in ('uitofp',): return '((%s)%s)' % (s.ctype(tt), x.c)
        if op in ('sitofp',): return '((%s)%s)' % (s.ctype(tt), s.sx(x))
        if op in ('fptoui',): return '((%s)%s)' % (s.ctype(tt), x.c)
        if op in ('fptosi',): return '((%s)(%s)%s)' % (s.ctype(tt), s.sct(tt), x.c)
        if op in ('fpext', 'fptrunc'): return '((%s)%s)' % (s.ctype(tt), x.c)
        raise NotImplementedError(op)
    def sx(s, x):  # signed view of int value
        b = x.t.bits
        if b in (8, 16, 32, 64): return '((%s)%s)' % (s.sct(x.t), x.c)
        w = 8 if b < 8 else 16 if b < 16 else 32 if b < 32 else 64
        return '(((int%d_t)(%s << %d)) >> %d)' % (w, '(uint%d_t)%s' % (w, x.c), w - b, w - b)
    def mask(s, c, t):
        if t.k != 'int' or t.bits in (8, 16, 32, 64, 128): return c
        return '((%s)(%s & %dULL))' % (s.ctype(t), c, (1 << t.bits) - 1)
    def binop(s, op, a, b, t):
        ct = s.ctype(t)
        sym = {'add': '+', 'sub': '-', 'mul': '*', 'and': '&', 'or': '|', 'xor': '^', 'shl': '<<', 'lshr': '>>', 'udiv': '/', 'urem': '%'}
        if op in sym: return s.mask('((%s)((%s)%s %s (%s)%s))' % (ct, ct, a.c, sym[op], ct, b.c), t)
        if op == 'ashr': return s.mask('((%s)(%s >> %s))' % (ct, s.sx(a), b.c), t)
        if op == 'sdiv': return s.mask('((%s)(%s / %s))' % (ct, s.sx(a), s.sx(b)), t)
        if op == 'srem': return s.mask('((%s)(%s %% %s))' % (ct, s.sx(a), s.sx(b)), t)
        fs = {'fadd': '+', 'fsub': '-', 'fmul': '*', 'fdiv': '/'}
        if op in fs: return '(%s %s %s)' % (a.c, fs[op], b.c)
        raise NotImplementedError(op)
    def gep(s, bt, base, idx):
        """returns (C expr of type void*, result pointee type)"""
        ct = s.ctype(bt)
        e = '((%s*)%s)[%s]' % (ct, base.c, s.idx(idx[0])); cur = bt
        for ix in idx[1:]:
            r = s.res(cur)
            if r.k == 'struct':
                n = int(re.search(r'(\d+)ULL\)$', ix.c).group(1)) if 'ULL' in ix.c else int(ix.c)
                e += '.f%d' % n; cur = r.els[n]
            elif r.k == 'arr':
                e += '.a[%s]' % s.idx(ix); cur = r.el
            else: raise NotImplementedError('gep into ' + tstr(r))
        return '((void*)&%s)' % e, cur
    def idx(s, v):
        if v.c.lstrip('(').startswith('uint') or 'ULL' in v.c:
            mm = re.fullmatch(r'\(\((uint\d+_t)\)(\d+)ULL\)', v.c)
            if mm:
                n = int(mm.group(2)); b = int(mm.group(1)[4:-2])
                if n >= 1 << (b - 1): n -= 1 << b
                return str(n)
        if v.t.k == 'int': return s.sx(v)
        return v.c
    # ---- emit
    def analyse_indirect(s, reach):
        """vtable slots and address-taken functions: indirect calls are dispatched over a PRECISE candidate set (CBMC's own
        function-pointer removal matches by C signature, which is hopeless once every pointer is void*)"""
        m = s.m; s.vslots = {}; s.addr_taken = set()
        fre = r'@"(?:[^"\\\\]|\\\\.)*"|@[-a-zA-Z$._0-9]+'
        for name, ln in m.globals.items():
            if name not in s.used_globals: continue
            init = ln.split('=', 1)[1]
            if name.startswith('@_ZTV') or name.startswith('@"_ZTV'):
                for arr in re.findall(r'\[\d+ x i8\*\] \[(.*?)\](?=\s*[,}])', init):
                    ents = []; depth = 0; cur = ''
                    for ch in arr:
                        if ch == '(': depth += 1
                        if ch == ')': depth -= 1
                        if ch == ',' and depth == 0: ents.append(cur); cur = ''
                        else: cur += ch
                    ents.append(cur)
                    for i, e in enumerate(ents):
                        fs = [x for x in re.findall(fre, e) if x in m.funcs or x in m.decls]
                        if i >= 2 and fs: s.vslots.setdefault(i - 2, set()).add(fs[0])
            else:
                for x in re.findall(fre, init):
                    if x in m.funcs or x in m.decls: s.addr_taken.add(x)
        for fname_, f in m.funcs.items():
            if fname_ not in reach or f.body is None: continue
            for ln in f.body:
                for mm in re.finditer('(' + fre + r')(?!\()', ln):
                    x = mm.group(1)
                    if (x in m.funcs or x in m.decls) and not re.search(r'\b(call|invoke)\b[^@]*' + re.escape(x) + r'$', ln[:mm.end()]): s.addr_taken.add(x)

    def shape(s, rt, argts):
        def k(t):
            t = s.res(t) if t.k == 'named' else t
            return 'p' if t.k == 'ptr' else tstr(t)
        return k(rt) + '(' + ','.join(k(t) for t in argts) + ')'

    def candidates(s, f, callee, rt, args):
        """functions an indirect call through SSA register `callee` may reach, or None if unknown"""
        defs = f.defs
        d = defs.get(callee, '')
        mm = re.match(r'load .*, .*\*\* (%\S+?),', d + ',')
        slot = None
        if mm:
            g = defs.get(mm.group(1), '')
            m2 = re.match(r'getelementptr inbounds .*\)\*\* (%\S+), i64 (\d+)$', g)
            if m2 and re.match(r'load .*\)\*\*, .*\)\*\*\* ', defs.get(m2.group(1), '')): slot = int(m2.group(2))
            elif re.match(r'load .*\)\*\*, .*\)\*\*\* ', g): slot = 0
        argts = [a.t for a in args if a is not None]
        def fd_of(n): return s.m.funcs.get(n) or s.m.decls.get(n)
        if slot is not None:
            # virtual call: same slot in some vtable, same shape ('this' differs between base and derived classes)
            want = s.shape(rt, argts)
            c = sorted(n for n in s.vslots.get(slot, ()) if fd_of(n) is not None and not fd_of(n).va and s.shape(fd_of(n).ret, [p[0] for p in fd_of(n).params]) == want)
            if c: return c
        # plain function pointer: address-taken functions of EXACTLY the called LLVM type (typed pointers make this precise)
        exact = lambda r_, ts_: tstr(r_) + '(' + ','.join(tstr(t) for t in ts_) + ')'
        want = exact(rt, argts)
        c = sorted(n for n in s.addr_taken if fd_of(n) is not None and not fd_of(n).va and exact(fd_of(n).ret, [p[0] for p in fd_of(n).params]) == want)
        return c or None

    def emit(s):
        m = s.m; out = []
        body = []
        # functions first (collect anon/array types on the way)
        s.ctors = []
        gc = m.globals.get('@llvm.global_ctors')
        if gc: s.ctors = [x for x in re.findall(r'void \(\)\* (@"(?:[^"\\]|\\.)*"|@[-a-zA-Z$._0-9]+)', gc)]
        s.entries = list(s.entries) + s.ctors + [n for n in m.funcs if n.startswith('@vh_')]   # vh_*: harness hooks called from rt/ models
        reach = s.reachable()
        s.translated = [n for n in reach if n in m.funcs and n not in s.stubs]
        s.analyse_indirect(set(reach))
        protos = []
        for name in reach:
            f = m.funcs.get(name)
            if f is None or name in s.stubs: continue
            body.append(s.emit_fn(f))
        for name in sorted(s.called | set(reach)):
            f = m.funcs.get(name) or m.decls.get(name)
            if f is None or name.startswith('@llvm.'): continue
            if cid(name) in BUILTIN: continue
            protos.append(s.proto(f) + ';')
        gl = s.emit_globals()
        out.append('#include <stdint.h>\n#include <stddef.h>\n#include <string.h>\n#include <stdlib.h>\n#include "vll_rt.h"\n')
        out += s.emit_types()
        out += protos; out += gl; out += body
        out.append('void vll_global_ctors(void) { %s }' % ' '.join('%s();' % s.fname(c) for c in s.ctors))
        return '\n'.join(out)
    def emit_types(s):
        m = s.m; out = []
        # iterate to fixpoint: ctype() on all fields may create new anon/arr types
        names = list(m.types.keys())
        done = False
        while not done:
            n0 = (len(s.anon), len(s.arr_td))
            for n in names:
                t = m.types[n]
                if t.k == 'struct':
                    for e in t.els: s.ctype(e)
            for k, (nm, t) in list(s.anon.items()):
                for e in t.els: s.ctype(e)
            for k, (nm, t) in list(s.arr_td.items()): s.ctype(t.el)
            done = n0 == (len(s.anon), len(s.arr_td))
        defs = {}  # cname -> (deps, text)
        def sdef(cname, t):
            deps = []; fl = []
            for i, e in enumerate(t.els):
                ce = s.ctype(e)
                if s.res(e).k in ('struct', 'arr') : deps.append(ce)
                fl.append('  %s f%d;' % (ce, i))
            if not fl: fl = ['  char _empty;'] if False else []
            return deps, '%s {\n%s\n}%s;' % (cname, '\n'.join(fl), ' __attribute__((packed))' if t.packed else '')
        for n in names:
            t = m.types[n]
            if t.k == 'struct': defs['struct S_' + cid(n)] = sdef('struct S_' + cid(n), t)
        for k, (nm, t) in s.anon.items(): defs['struct ' + nm] = sdef('struct ' + nm, t)
        for k, (nm, t) in s.arr_td.items():
            ce = s.ctype(t.el)
            defs[nm] = ([ce] if s.res(t.el).k in ('struct', 'arr') else [], 'typedef struct %s_s { %s a[%d]; } %s;' % (nm, ce, max(t.n, 1), nm))
        emitted = set(); order = []
        def visit(c):
            if c in emitted or c not in defs: return
            emitted.add(c)
            for d in defs[c][0]: visit(d)
            order.append(defs[c][1])
        for c in list(defs): visit(c)
        return order
    def emit_globals(s):
        out = []
        for name, ln in s.m.globals.items():
            if name not in s.used_globals or name == '@llvm.global_ctors' or cid(name) in RTGLOBALS: continue
            p = P(tokenize(ln)); p.next(); p.expect('=')
            ext = False
            while p.peek()[1] not in ('global', 'constant'):
                if p.peek()[1] in ('external', 'extern_weak'): ext = True
                if p.peek()[1] == 'thread_local' :
                    p.next()
                    if p.eat('('): p.next(); p.expect(')')
                    continue
                p.next()
            p.next(); t = parse_type(p)
            ct = s.ctype(t)
            if ext or p.peek()[0] == 'eof' or p.at(','):
                if ext and (name.startswith('@_ZTV') or name.startswith('@_ZTI') or name.startswith('@_ZTS') or name == '@__dso_handle'): ext = False   # library vtables/typeinfo: only their address is used   # RTTI helper vtables: only their address is used
                if cid(name) in ('stdout', 'stderr', 'stdin'):
                    out.append('extern %s %s;' % (ct, s.gname(name))); continue
                out.append('extern %s %s;' % (ct, s.gname(name)) if ext else '%s %s;' % (ct, s.gname(name))); continue
            v = s.parse_val(p, t, None)
            init = v.c
            if s.res(t).k == 'arr' and init != '{0}':
                el = s.res(s.res(t).el)
                if not (init.startswith('{{') and el.k not in ('struct', 'arr')): init = '{%s}' % init     # array wrapper struct { T a[N]; }
            out.append('%s %s = %s;' % (ct, s.gname(name), init))
        # order: declarations first to allow address cross refs
        decls = []
        for name, ln in s.m.globals.items():
            if name in s.used_globals and name != '@llvm.global_ctors' and cid(name) not in RTGLOBALS and cid(name) not in ('stdout', 'stderr', 'stdin'):
                p = P(tokenize(ln));
                while p.peek()[1] not in ('global', 'constant'): p.next()
                p.next(); t = parse_type(p); decls.append('extern %s %s;' % (s.ctype(t), s.gname(name)))
        return decls + out
    def reachable(s):
        seen = []; st = list(s.entries); sset = set()
        s.used_globals = set(); s.called = set()
        while st:
            n = st.pop()
            if n in sset: continue
            sset.add(n); seen.append(n)
            f = s.m.funcs.get(n)
            if f is None or n in s.stubs: continue
            for ln in f.body:
                for g in re.findall(r'@"(?:[^"\\]|\\.)*"|@[-a-zA-Z$._0-9]+', ln):
                    if g in s.m.funcs or g in s.m.decls:
                        s.called.add(g)
                        if g in s.m.funcs: st.append(g)
                    elif g in s.m.globals: s.used_globals.add(g)
        # globals referencing globals/functions
        changed = True
        while changed:
            changed = False
            for g in list(s.used_globals):
                for h in re.findall(r'@"(?:[^"\\]|\\.)*"|@[-a-zA-Z$._0-9]+', s.m.globals[g].split('=', 1)[1]):
                    if h in s.m.globals and h not in s.used_globals: s.used_globals.add(h); changed = True
                    if (h in s.m.funcs or h in s.m.decls) and h not in s.called:
                        s.called.add(h); changed = True
                        if h in s.m.funcs and h not in sset:
                            sub = Emit.reach_from(s, h, sset, seen)
        return seen
    def reach_from(s, h, sset, seen):
        st = [h]
        while st:
            n = st.pop()
            if n in sset: continue
            sset.add(n); seen.append(n)
            f = s.m.funcs.get(n)
            if f is None or n in s.stubs: continue
            for ln in f.body:
                for g in re.findall(r'@"(?:[^"\\]|\\.)*"|@[-a-zA-Z$._0-9]+', ln):
                    if g in s.m.funcs or g in s.m.decls:
                        s.called.add(g)
                        if g in s.m.funcs: st.append(g)
                    elif g in s.m.globals: s.used_globals.add(g)
    def proto(s, f):
        ps = ', '.join('%s %s' % (s.ctype(pt), 'r_' + cid(nm) if nm else 'a%d' % i) for i, (pt, nm, pa) in enumerate(f.params))
        if f.va: ps = ps + ', ...' if ps else '...'
        return '%s %s(%s)' % (s.ctype(f.ret), s.fname(f.name), ps or 'void')
    def emit_fn(s, f):
        regs = collections.OrderedDict(); code = []; allocas = []
        # unnamed params are %0.. ; first unnamed block label follows
        blocks = []; cur = None
        nparam = len(f.params)
        for ln in f.body:
            ln = ln.split(' ; preds')[0] if re.match(r'^[-a-zA-Z$._0-9"]+:', ln) else ln
            mm = re.match(r'^("(?:[^"\\]|\\.)*"|[-a-zA-Z$._0-9]+):', ln)
            if mm:
                cur = [mm.group(1), []]; blocks.append(cur); continue
            if not ln.strip(): continue
            if cur is None:
                cur = ['%d' % nparam if all(nm is None or re.fullmatch(r'%\d+', nm) for _, nm, _ in f.params) else 'entry', []]; blocks.append(cur)
            if (ln.startswith('    ') or ln.strip().startswith(']')) and cur[1]: cur[1][-1] += ' ' + ln.strip()
            else: cur[1].append(ln.strip())
        f.defs = {}
        for bname_, ins_ in blocks:
            for ln_ in ins_:
                md_ = re.match(r'(%"(?:[^"\\]|\\.)*"|%[-a-zA-Z$._0-9]+) = (.*?)(?:, align \d+)?(?:, ![-a-zA-Z$._0-9]+ !\d+)*$', ln_)
                if md_: f.defs[md_.group(1)] = md_.group(2)
        # lay the blocks out in reverse post-order of the CFG: then only genuine loop back-edges are backward gotos
        # (CBMC treats EVERY backward goto as a loop to unwind; LLVM's own block order has many backward non-loop jumps)
        if len(blocks) > 2:
            names = [b[0] for b in blocks]; idx = {n: i for i, n in enumerate(names)}
            succ = {}
            for bname, ins in blocks:
                term = ins[-1] if ins else ''
                tg = [x[1:] if x.startswith('%') else x for x in re.findall(r'label (%"(?:[^"\\]|\\.)*"|%[-a-zA-Z$._0-9]+)', term)]
                succ[bname] = [t for t in tg if t in idx]
            seen = set(); post = []
            st = [(names[0], iter(succ[names[0]]))]; seen.add(names[0])
            while st:
                n, it = st[-1]
                for m in it:
                    if m not in seen: seen.add(m); st.append((m, iter(succ[m]))); break
                else: post.append(n); st.pop()
            order = post[::-1] + [n for n in names if n not in seen]
            blocks = [blocks[idx[n]] for n in order]
        # entry label may be unnamed numeric: compute as count of unnamed values before
        lab = lambda l: 'L_' + cid('%' + l)
        # first pass: collect phis
        phis = {}  # block -> list of (reg, type, [(val, pred)])
        parsed = {}
        for bname, ins in blocks:
            for ln in ins:
                if ' = phi ' in ln:
                    p = P(tokenize(ln)); r = p.next()[1]; p.expect('='); p.next(); t = parse_type(p)
                    inc = []
                    while True:
                        p.expect('['); v = s.parse_val(p, t, f); p.expect(','); pred = p.next()[1]; p.expect(']')
                        inc.append((v, pred[1:] if pred[0] == '%' else pred))
                        if not p.eat(','): break
                    phis.setdefault(bname, []).append((r, t, inc)); regs['r_' + cid(r)] = t
        def edge(frm, to):
            to = to[1:] if to.startswith('%') else to
            lst = phis.get(to, [])
            o = []
            if lst:
                tmps = []
                for k, (r, t, inc) in enumerate(lst):
                    v = [v for v, pr in inc if pr.strip('"') == frm.strip('"')]
                    if not v: raise SyntaxError('phi edge %s->%s' % (frm, to))
                    o.append('%s = %s;' % ('p_' + cid(r), v[0].c)); regs['p_' + cid(r)] = t
                for r, t, inc in lst: o.append('r_%s = p_%s;' % (cid(r), cid(r)))
            o.append('goto %s;' % lab(to))
            return ' '.join(o)
        for bname, ins in blocks:
            code.append('%s: ;' % lab(bname))
            for ln in ins:
                if ' = phi ' in ln: continue
                try:
                    c = s.emit_ins(f, ln, regs, allocas, bname, edge); s.prev_ins = ln
                except Exception as e:
                    raise type(e)('%s\n  in %s: %s' % (e, f.name, ln))
                if c: code.append('  ' + c)
        decl = ['  %s %s;' % (s.ctype(t), r) for r, t in regs.items() if s.ctype(t) != 'void']
        return '%s {\n%s\n%s\n%s\n}\n' % (s.proto(f), '\n'.join(allocas), '\n'.join(decl), '\n'.join(code))
    def op(s, p, f, t=None):
        if t is None: skip_pattrs(p); t = parse_type(p)
        skip_pattrs(p)
        return s.parse_val(p, t, f)
    def emit_ins(s, f, ln, regs, allocas, bname, edge):
        ln = re.sub(r',\s*!\S+\s+!\S+', '', ln); ln = re.sub(r'\s+#\d+$', '', ln)
        p = P(tokenize(ln)); dst = None
        if p.peek(1)[1] == '=' and p.peek()[1][0] == '%': dst = 'r_' + cid(p.next()[1]); p.next()
        op = p.next()[1]
        def setd(t, c):
            if s.ctype(t) == 'void': return c + ';'
            regs[dst] = t; return '%s = %s;' % (dst, c)
        while p.peek()[1] in ('nuw', 'nsw', 'exact', 'inbounds', 'volatile', 'tail', 'musttail', 'notail', 'fast', 'nnan', 'ninf', 'nsz', 'arcp', 'contract', 'afn', 'reassoc'):
            if op in ('getelementptr', 'load', 'store', 'call', 'add', 'sub', 'mul', 'shl', 'lshr', 'ashr', 'udiv', 'sdiv', 'fadd', 'fsub', 'fmul', 'fdiv', 'fcmp') or True: p.next()
        if op in ('tail', 'musttail', 'notail'): op = p.next()[1]
        if op in ('add', 'sub', 'mul', 'and', 'or', 'xor', 'shl', 'lshr', 'ashr', 'udiv', 'urem', 'sdiv', 'srem', 'fadd', 'fsub', 'fmul', 'fdiv'):
            while p.peek()[1] in ('nuw', 'nsw', 'exact', 'fast', 'nnan', 'ninf', 'nsz', 'arcp', 'contract', 'afn', 'reassoc'): p.next()
            t = parse_type(p); a = s.parse_val(p, t, f); p.expect(','); b = s.parse_val(p, t, f)
            return setd(t, s.binop(op, a, b, t))
        if op == 'icmp':
            pred = p.next()[1]; t = parse_type(p); a = s.parse_val(p, t, f); p.expect(','); b = s.parse_val(p, t, f)
            sym = {'eq': '==', 'ne': '!=', 'ugt': '>', 'uge': '>=', 'ult': '<', 'ule': '<=', 'sgt': '>', 'sge': '>=', 'slt': '<', 'sle': '<='}[pred]
            if t.k == 'ptr':
                return setd(T('int', bits=1), '((uintptr_t)%s %s (uintptr_t)%s)' % (a.c, sym, b.c)) if pred not in ('eq', 'ne') else setd(T('int', bits=1), '(%s %s %s)' % (a.c, sym, b.c))
            if pred[0] == 's': return setd(T('int', bits=1), '(%s %s %s)' % (s.sx(a), sym, s.sx(b)))
            return setd(T('int', bits=1), '((%s)%s %s (%s)%s)' % (s.ctype(t), a.c, sym, s.ctype(t), b.c))
        if op == 'fcmp':
            while p.peek()[1] in ('fast', 'nnan', 'ninf', 'nsz'): p.next()
            pred = p.next()[1]; t = parse_type(p); a = s.parse_val(p, t, f); p.expect(','); b = s.parse_val(p, t, f)
            if pred == 'uno': return setd(T('int', bits=1), '((%s != %s) || (%s != %s))' % (a.c, a.c, b.c, b.c))
            if pred == 'ord': return setd(T('int', bits=1), '((%s == %s) && (%s == %s))' % (a.c, a.c, b.c, b.c))
            if pred in ('true', 'false'): return setd(T('int', bits=1), '1' if pred == 'true' else '0')
            if pred in ('ugt', 'uge', 'ult', 'ule'):      # unordered or relation
                sym = {'ugt': '>', 'uge': '>=', 'ult': '<', 'ule': '<='}[pred]
                return setd(T('int', bits=1), '(!((%s == %s) && (%s == %s)) || (%s %s %s))' % (a.c, a.c, b.c, b.c, a.c, sym, b.c))
            sym = {'oeq': '==', 'one': '!=', 'ogt': '>', 'oge': '>=', 'olt': '<', 'ole': '<=', 'une': '!=', 'ueq': '=='}[pred]
            return setd(T('int', bits=1), '(%s %s %s)' % (a.c, sym, b.c))
        if op in ('bitcast', 'inttoptr', 'ptrtoint', 'trunc', 'zext', 'sext', 'addrspacecast', 'uitofp', 'sitofp', 'fptoui', 'fptosi', 'fpext', 'fptrunc'):
            ft = parse_type(p); x = s.parse_val(p, ft, f); p.expect('to'); tt = parse_type(p)
            return setd(tt, s.cast(op, x, tt))
        if op == 'getelementptr':
            bt = parse_type(p); p.expect(','); pt = parse_type(p); base = s.parse_val(p, pt, f); idx = []
            while p.eat(','):
                skip_pattrs(p); it = parse_type(p); idx.append(s.parse_val(p, it, f))
            e, rt = s.gep(bt, base, idx)
            return setd(T('ptr', to=rt), e)
        if op == 'load':
            atomic = p.eat('atomic'); p.eat('volatile')
            t = parse_type(p); p.expect(','); pt = parse_type(p); a = s.parse_val(p, pt, f)
            if atomic:
                p.eat('syncscope'); order = p.next()[1]
                return setd(t, '(%s)vra_load(%s, %d, VRA_%s)' % (s.ctype(t), a.c, s.sizeof_bits(t), order))
            return setd(t, '*(%s*)%s' % (s.ctype(t), a.c))
        if op == 'store':
            atomic = p.eat('atomic'); p.eat('volatile')
            t = parse_type(p); v = s.parse_val(p, t, f); p.expect(','); pt = parse_type(p); a = s.parse_val(p, pt, f)
            if atomic:
                order = p.next()[1]
                return 'vra_store(%s, (uint64_t)%s, %d, VRA_%s);' % (a.c, v.c, s.sizeof_bits(t), order)
            # memcpy of a pointer lowered by LLVM to an i64 load + i64 store into a pointer-typed slot: copy it as a POINTER
            # (pointer -> integer -> pointer laundering makes CBMC lose track of what the pointer points to)
            if t.k == 'int' and t.bits == 64 and v.c.startswith('r_') and a.c.startswith('r_'):
                dq = f.defs.get('%' + a.c[2:], f.defs.get('%"' + a.c[2:] + '"', ''))
                dv = f.defs.get('%' + v.c[2:], '')
                mq = re.match(r'bitcast .*\*\* (%\S+) to i64\*$', dq)
                mv = re.match(r'load i64, i64\* (%[-a-zA-Z$._0-9]+)$', dv)
                if mq and mv and getattr(s, 'prev_ins', '').startswith('%' + v.c[2:] + ' = load i64'):
                    return '*(void**)%s = *(void**)r_%s;' % (a.c, cid(mv.group(1)))
            return '*(%s*)%s = %s;' % (s.ctype(t), a.c, v.c)
        if op == 'atomicrmw':
            p.eat('volatile'); rop = p.next()[1]; pt = parse_type(p); a = s.parse_val(p, pt, f); p.expect(','); t = parse_type(p); v = s.parse_val(p, t, f); order = p.next()[1]
            return setd(t, '(%s)vra_rmw(%s, VRA_RMW_%s, (uint64_t)%s, %d, VRA_%s)' % (s.ctype(t), a.c, rop, v.c, s.sizeof_bits(t), order))
        if op == 'cmpxchg':
            p.eat('weak'); p.eat('volatile'); pt = parse_type(p); a = s.parse_val(p, pt, f); p.expect(','); t = parse_type(p); e = s.parse_val(p, t, f); p.expect(','); t2 = parse_type(p); n = s.parse_val(p, t2, f); o1 = p.next()[1]; o2 = p.next()[1]
            rt = T('struct', els=[t, T('int', bits=1)], packed=False)
            return setd(rt, '(%s){0}; %s.f1 = vra_cas(%s, (uint64_t)%s, (uint64_t)%s, %d, VRA_%s, VRA_%s, &vra_old); %s.f0 = (%s)vra_old' % (s.ctype(rt), dst, a.c, e.c, n.c, s.sizeof_bits(t), o1, o2, dst, s.ctype(t)))
        if op == 'fence':
            return 'vra_fence(VRA_%s);' % p.next()[1]
        if op == 'alloca':
            t = parse_type(p); n = None
            if p.eat(','):
                if p.peek()[1] != 'align': nt = parse_type(p); n = s.parse_val(p, nt, f)
            nm = 'al_' + dst
            allocas.append('  %s %s%s;' % (s.ctype(t), nm, '' if n is None else '[%s]' % n.c))
            regs[dst] = T('ptr', to=t)
            return '%s = (void*)%s%s;' % (dst, '&' if n is None else '', nm)
        if op == 'br':
            if p.eat('label'): return edge(bname, p.next()[1])
            t = parse_type(p); c = s.parse_val(p, t, f); p.expect(','); p.expect('label'); a = p.next()[1]; p.expect(','); p.expect('label'); b = p.next()[1]
            return 'if (%s) { %s } else { %s }' % (c.c, edge(bname, a), edge(bname, b))
        if op == 'switch':
            t = parse_type(p); v = s.parse_val(p, t, f); p.expect(','); p.expect('label'); d = p.next()[1]; p.expect('[')
            o = []
            while not p.at(']'):
                ct = parse_type(p); cv = s.parse_val(p, ct, f); p.expect(','); p.expect('label'); l = p.next()[1]
                o.append('if (%s == %s) { %s }' % (v.c, cv.c, edge(bname, l)))
            return ' '.join(o) + ' ' + edge(bname, d)
        if op == 'ret':
            t = parse_type(p)
            if t.k == 'void': return 'return;'
            return 'return %s;' % s.parse_val(p, t, f).c
        if op == 'unreachable': return 'VLL_UNREACHABLE();' + ('' if s.ctype(f.ret) == 'void' else ' return (%s){0};' % s.ctype(f.ret) if s.res(f.ret).k in ('struct','arr') else ' return 0;')
        if op == 'select':
            ct = parse_type(p); c = s.parse_val(p, ct, f); p.expect(','); t = parse_type(p); a = s.parse_val(p, t, f); p.expect(','); t2 = parse_type(p); b = s.parse_val(p, t2, f)
            return setd(t, '(%s ? %s : %s)' % (c.c, a.c, b.c))
        if op == 'extractvalue':
            t = parse_type(p); a = s.parse_val(p, t, f); cur = t; e = a.c
            while p.eat(','):
                n = int(p.next()[1]); r = s.res(cur)
                if r.k == 'struct': e += '.f%d' % n; cur = r.els[n]
                else: e += '.a[%d]' % n; cur = r.el
            return setd(cur, e)
        if op == 'insertvalue':
            t = parse_type(p); a = s.parse_val(p, t, f); p.expect(','); vt = parse_type(p); v = s.parse_val(p, vt, f); cur = t; e = ''
            while p.eat(','):
                n = int(p.next()[1]); r = s.res(cur)
                if r.k == 'struct': e += '.f%d' % n; cur = r.els[n]
                else: e += '.a[%d]' % n; cur = r.el
            regs[dst] = t
            return '%s = %s; %s%s = %s;' % (dst, a.c, dst, e, v.c)
        if op in ('call', 'invoke'):
            while p.peek()[1] in ('fastcc', 'ccc', 'coldcc') or p.peek()[1] in PATTR or p.peek()[1] in ('fast','nnan','ninf','nsz','arcp','contract','afn','reassoc'): p.next()
            skip_pattrs(p)
            rt = parse_type(p)
            fty = None
            if rt.k == 'func': fty = rt; rt = rt.ret
            elif rt.k == 'ptr' and rt.to.k == 'func' and p.peek()[1][0] in '%@' and False: pass
            k, callee = p.next()
            if callee in ('bitcast',):
                p.i -= 1; cv = s.parse_val(p, T('ptr', to=T('int', bits=8)), f); callee = None
            p.expect('('); args = []
            if not p.at(')'):
                while True:
                    at = parse_type(p); pa = skip_pattrs(p)
                    if at.k == 'metadata':
                        # skip metadata operand
                        depth = 0
                        while not (depth == 0 and (p.at(',') or p.at(')'))):
                            if p.at('('): depth += 1
                            if p.at(')'): depth -= 1
                            p.next()
                        args.append(None)
                    else:
                        v = s.parse_val(p, at, f)
                        byv = [x for x in pa if isinstance(x, tuple) and x[0] == 'byval']
                        if byv:
                            tmp = 'bv_%s_%d' % (cid('%' + bname), len(allocas)); allocas.append('  %s %s;' % (s.ctype(byv[0][1]), tmp))
                            v = Val('(%s = *(%s*)%s, (void*)&%s)' % (tmp, s.ctype(byv[0][1]), v.c, tmp), at)
                        args.append(v)
                    if not p.eat(','): break
            p.expect(')')
            post = ''
            if op == 'call' and s.m.exc: post = ' if (vll_exc) return%s;' % s.retdflt(f)
            if op == 'invoke':
                while not p.at('to'): p.next()
                p.next(); p.expect('label'); nl = p.next()[1]; p.expect('unwind'); p.expect('label'); ul = p.next()[1]
                post = ' if (vll_exc) { %s } else { %s }' % (edge(bname, ul), edge(bname, nl))
            if callee and callee.startswith('@llvm.'):
                c = s.intrinsic(callee, args, rt)
                if op == 'call': post = ''
                if c is None: return post.strip() or None
                return (setd(rt, c) if dst else c + ';') + post
            if callee and callee[0] == '@':
                cn = s.fname(callee)
                cn = {'bcmp': 'memcmp'}.get(cn, cn)
                fd = s.m.funcs.get(callee) or s.m.decls.get(callee)
                if fd is not None and fd.va or fty is not None and fty.va or cn in BUILTIN:
                    c = '%s(%s)' % (cn, ', '.join(a.c for a in args))
                else:
                    c = '%s(%s)' % (cn, ', '.join(a.c for a in args))
            else:
                fp = cv.c if callee is None else 'r_' + cid(callee)
                cands = s.candidates(f, callee, rt, args) if callee is not None else None
                if cands:
                    al = ', '.join(a.c for a in args)
                    isv = s.ctype(rt) == 'void' or not dst
                    chain = ' else '.join('if (%s == (void*)%s) { %s%s(%s); }' % (fp, s.fname(n), '' if isv else dst + ' = ', s.fname(n), al) for n in cands)
                    if not isv: regs[dst] = rt
                    return chain + ' else { VLL_BADFP(); }' + post
                c = '((%s(*)(%s))%s)(%s)' % (s.ctype(rt), ', '.join(s.ctype(a.t) for a in args) or 'void', fp, ', '.join(a.c for a in args))
            return (setd(rt, c) if dst and s.ctype(rt) != 'void' else c + ';') + post
        if op == 'landingpad':
            t = parse_type(p); regs[dst] = t
            # clauses in order; the personality routine enters at the FIRST matching catch clause (selector = type id of
            # that clause); clang's landing-pad code falls through to 'resume' when the selector matches no handler, so
            # entering the pad with selector 0 is equivalent to not stopping in this frame
            sel = '0'
            for cl in reversed(re.findall(r'\bcatch i8\* (null|[^@]*?(@"(?:[^"\\]|\\.)*"|@[-a-zA-Z$._0-9]+))', ln)):
                ti = cl[1] if cl[0] != 'null' else None
                sel = '(%s ? %d : %s)' % (s.eh_match(ti), s.eh_typeid(ti), sel)
            # entering a landing pad stops the propagation (clean-up code and handlers make ordinary calls); 'resume' restarts it
            return '%s = (%s){0}; %s.f0 = vll_exc_obj; %s.f1 = %s; vll_exc = 0;' % (dst, s.ctype(t), dst, dst, sel)
        if op == 'resume': return 'vll_exc = 1; return%s;' % s.retdflt(f)
        if op == 'freeze':
            t = parse_type(p); return setd(t, s.parse_val(p, t, f).c)
        raise NotImplementedError('op ' + op)
    # ---- C++ exceptions (pending-exception model; runtime in rt/m_eh.c)
    def retdflt(s, f):
        return '' if s.ctype(f.ret) == 'void' else ' (%s){0}' % s.ctype(f.ret) if s.res(f.ret).k in ('struct', 'arr') else ' 0'
    STD_BASES = {'_ZTISt13runtime_error': ['_ZTISt9exception'], '_ZTISt11logic_error': ['_ZTISt9exception'], '_ZTISt9bad_alloc': ['_ZTISt9exception'],
                 '_ZTISt8bad_cast': ['_ZTISt9exception'], '_ZTISt10bad_typeid': ['_ZTISt9exception'], '_ZTISt17bad_function_call': ['_ZTISt9exception'],
                 '_ZTISt12length_error': ['_ZTISt11logic_error'], '_ZTISt12out_of_range': ['_ZTISt11logic_error'], '_ZTISt16invalid_argument': ['_ZTISt11logic_error'],
                 '_ZTISt12domain_error': ['_ZTISt11logic_error'], '_ZTISt11range_error': ['_ZTISt13runtime_error'], '_ZTISt14overflow_error': ['_ZTISt13runtime_error'],
                 '_ZTISt15underflow_error': ['_ZTISt13runtime_error'], '_ZTISt12system_error': ['_ZTISt13runtime_error'], '_ZTINSt3_V212system_errorE': ['_ZTISt13runtime_error'],
                 '_ZTISt20bad_array_new_length': ['_ZTISt9bad_alloc'], '_ZTINSt8ios_base7failureB5cxx11E': ['_ZTISt12system_error'],
                 '_ZTINSt10filesystem7__cxx1116filesystem_errorE': ['_ZTISt12system_error']}
    def eh_tables(s):
        if hasattr(s, 'eh_ti'): return
        s.eh_ti = [g for g in s.m.globals if g.startswith('@_ZTI')]            # every typeinfo object of the module
        s.eh_base = {}
        for g in s.eh_ti:
            rhs = s.m.globals[g].split('=', 1)[1]
            b = [x for x in re.findall(r'@_ZTI[A-Za-z0-9_]+', rhs) if x != g] if ' external ' not in ' ' + rhs else []
            s.eh_base[g] = b + ['@' + x for x in s.STD_BASES.get(g[1:], [])]
        s.eh_ids = {}; s.eh_matchers = collections.OrderedDict()
    def eh_typeid(s, ti):
        s.eh_tables()
        key = ti or 'null'
        if key not in s.eh_ids: s.eh_ids[key] = len(s.eh_ids) + 1
        return s.eh_ids[key]
    def eh_typeid_c(s, cname):
        s.eh_tables()
        if cname is None: return s.eh_typeid(None)
        for g in s.eh_ti:
            if s.gname(g) == cname: return s.eh_typeid(g)
        raise NotImplementedError('eh.typeid.for of unknown typeinfo ' + cname)
    def eh_match(s, ti):
        # C expression: does the exception in flight match a catch clause for typeinfo ti (None = catch all)?
        s.eh_tables()
        if ti is None: return '1'
        def derives(g, seen=()):
            return g == ti or any(derives(b, seen + (g,)) for b in s.eh_base.get(g, []) if b not in seen)
        subs = [g for g in s.eh_ti if g in s.used_globals and derives(g)]       # only types the reachable code mentions can be thrown
        return '(' + ' || '.join('vll_exc_ti == (void*)&%s' % s.gname(g) for g in subs) + ')'
    def sizeof_bits(s, t):
        if t.k == 'int': return t.bits
        if t.k == 'ptr': return 64
        raise NotImplementedError
    def intrinsic(s, name, args, rt):
        n = name[6:]
        if n.startswith(('lifetime.', 'dbg.', 'experimental.noalias', 'assume', 'invariant.', 'prefetch', 'x86.sse2.clflush', 'x86.clflushopt')): return None
        # constant length: CBMC's built-in models; symbolic length: bounded byte loops (rt/vll_rt.h) - CBMC's
        # array-theory encoding of variable-length memset/memcpy does not scale
        const_len = len(args) > 2 and re.fullmatch(r'\(\(uint\d+_t\)\d+ULL\)', args[2].c) is not None
        pre = '' if (const_len or not BYTELOOPS) else 'vll_'
        if n.startswith('memcpy.') : return pre + 'memcpy(%s, %s, %s)' % (args[0].c, args[1].c, args[2].c)
        if n.startswith('memmove.'): return pre + 'memmove(%s, %s, %s)' % (args[0].c, args[1].c, args[2].c)
        if n.startswith('memset.'): return pre + 'memset(%s, %s, %s)' % (args[0].c, args[1].c, args[2].c)
        if n.startswith('expect.'): return args[0].c
        if n.startswith(('umul.with.overflow', 'uadd.with.overflow', 'usub.with.overflow', 'smul.with.overflow', 'sadd.with.overflow', 'ssub.with.overflow')):
            ct = s.ctype(rt); k = n.split('.')[0]
            return 'VLL_OVF_%s(%s, %s, %s, %s)' % (k, ct, s.ctype(args[0].t), args[0].c, args[1].c)
        if n.startswith(('umax.', 'umin.')): return '(%s %s %s ? %s : %s)' % (args[0].c, '>' if n[1:4] == 'max' else '<', args[1].c, args[0].c, args[1].c)
        if n.startswith(('smax.', 'smin.')): return '(%s %s %s ? %s : %s)' % (s.sx(args[0]), '>' if n[1:4] == 'max' else '<', s.sx(args[1]), args[0].c, args[1].c)
        if n.startswith('ctlz.'): return 'vll_ctlz%d(%s)' % (args[0].t.bits, args[0].c)
        if n.startswith('cttz.'): return 'vll_cttz%d(%s)' % (args[0].t.bits, args[0].c)
        if n.startswith('ctpop.'): return 'vll_ctpop%d(%s)' % (args[0].t.bits, args[0].c)
        if n.startswith('bswap.'): return 'vll_bswap%d(%s)' % (args[0].t.bits, args[0].c)
        if n.startswith('usub.sat.'): return '(%s > %s ? (%s)(%s - %s) : (%s)0)' % (args[0].c, args[1].c, s.ctype(rt), args[0].c, args[1].c, s.ctype(rt))
        if n.startswith('uadd.sat.'): return '((%s)(%s + %s) < %s ? (%s)~(%s)0 : (%s)(%s + %s))' % (s.ctype(rt), args[0].c, args[1].c, args[0].c, s.ctype(rt), s.ctype(rt), s.ctype(rt), args[0].c, args[1].c)
        if n == 'fabs.f64': return '__builtin_fabs(%s)' % args[0].c
        if n == 'fabs.f32': return '__builtin_fabsf(%s)' % args[0].c
        if n == 'fabs.f80': return '__builtin_fabsl(%s)' % args[0].c
        if n in ('floor.f64', 'ceil.f64', 'trunc.f64', 'rint.f64', 'nearbyint.f64', 'round.f64'): return '__builtin_%s(%s)' % (n.split('.')[0], args[0].c)
        if n in ('copysign.f64',): return '__builtin_copysign(%s, %s)' % (args[0].c, args[1].c)
        if n == 'trap': return 'VLL_TRAP()'
        if n.startswith('eh.typeid.for'):
            mm = re.search(r'&(\w+)\)', args[0].c)
            return '%d' % s.eh_typeid_c(mm.group(1) if mm else None)
        if n.startswith('fshl.') or n.startswith('fshr.'): return 'vll_%s%d(%s,%s,%s)' % (n[:4], args[0].t.bits, args[0].c, args[1].c, args[2].c)
        if n.startswith('abs.'): return '(%s)(%s < 0 ? -%s : %s)' % (s.ctype(rt), s.sx(args[0]), s.sx(args[0]), s.sx(args[0]))
        raise NotImplementedError('intrinsic ' + name)

import os
BYTELOOPS = os.environ.get('VLL_BYTELOOPS') == '1'   # variable-length memset/memcpy as bounded byte loops instead of CBMC's built-ins
LIBCGLOBALS = {'__libc_single_threaded', 'stdout', 'stderr', 'stdin', 'environ', 'timezone', 'daylight'}   # real libc objects: declared extern, no prefix
RTGLOBALS = {'vll_tz_offset', 'vll_tz_dst_at', 'vll_tz_dst_delta', 'vll_now_value', 'vll_now_set', 'vll_alloc_forbidden', 'vra_loc_overflow_prunes', 'vll_fatal_ok', 'vll_fatal_seen', 'vll_exc', 'vll_exc_obj', 'vll_exc_type', 'vll_exc_ti'}
BUILTIN = {'strsignal', 'strtoul', 'strtol', 'strtoull', 'strtoll', 'strtod', 'strtof', 'getenv', 'atoi', 'atol', 'qsort', 'bsearch', 'rand', 'srand', 'atexit', 'system', 'memrchr', 'strdup', 'strerror', 'bcmp', '__CPROVER_assume', '__CPROVER_assert', 'malloc', 'free', 'calloc', 'realloc', 'memcpy', 'memset', 'memmove', 'strlen', 'strnlen', 'memchr', 'memcmp', 'strcmp', 'strncmp', 'strcpy', 'strncpy', 'strchr', 'strrchr', 'strstr', 'exit', 'abs', 'labs',
           'vnd_u64', 'vnd_range', 'vassume', 'vassert_at', 'vwitness_at', 'vobs', 'vll_abort', 'vll_assert_fail', 'vll_printf', 'vll_fprintf', 'vll_puts',
           'vll_forbidden', 'vll_rdtsc', 'vll_cxa_atexit', 'vll_guard_acquire', 'vll_guard_release', 'vll_pure_virtual',
           'vra_load', 'vra_store', 'vra_rmw', 'vra_cas', 'vra_fence', 'vra_set_thread', 'vra_thread', 'vra_na_read', 'vra_na_write', 'vra_forget', 'vra_register', 'vra_stale_reads', 'vll_qpool_set'}

if __name__ == '__main__':
    src, out = sys.argv[1], sys.argv[2]
    entries = []; stubs = set(); prefixes = []
    for a in sys.argv[3:]:
        if a.startswith('-j'): continue
        if a.startswith('-s'): stubs.add(a[2:])
        elif a.startswith('-P'): prefixes.append(a[2:])
        else: entries.append(a)
    m = parse_module(open(src).read())
    stubs = {('@'+x if not x.startswith('@') else x) for x in stubs}
    for n in list(m.funcs):
        if any(n.strip('@"').startswith(px) for px in prefixes): stubs.add(n)
    sys.stderr.write('stubbed: %s\n' % ' '.join(sorted(stubs)))
    info = [a[2:] for a in sys.argv[3:] if a.startswith('-j')]
    entries = [x for x in entries if not x.startswith('-')]
    e = Emit(m, stubs); e.entries = ['@' + x if not x.startswith('@') else x for x in entries]
    open(out, 'w').write(e.emit())
    if info:
        import json
        ext = sorted(n.strip('@"') for n in e.called if n not in m.funcs and not n.startswith('@llvm.'))
        json.dump({'translated': [n.strip('@"') for n in e.translated], 'external': ext}, open(info[0], 'w'))
