#!/bin/bash
# usage: engine/seedconfirm.sh <PID> <worktree> <seed-dir (with patch.diff, demo.cpp)> [check args...]
# 1. demo passes on the unchanged worktree  2. apply patch: demo fails, the worktree's test suite still passes
# 3. /verif check against the patched tree (VERIF_REPO=worktree)  4. patch removed again
pid=$1; wt=$2; sd=$3; shift 3
out=$sd/confirm.txt; : > $out
cd $wt && git checkout -q -- include
g++ -std=c++17 -O1 -fno-access-control -I$wt/include $sd/demo.cpp -o $sd/demo_clean -lpthread >> $out 2>&1; (cd $sd && timeout 120 ./demo_clean > demo_clean.out 2>&1); echo "demo on unchanged tree: rc=$?" >> $out
git apply $sd/patch.diff || { echo "PATCH DOES NOT APPLY" >> $out; exit 1; }
g++ -std=c++17 -O1 -fno-access-control -I$wt/include $sd/demo.cpp -o $sd/demo_patched -lpthread >> $out 2>&1; (cd $sd && timeout 120 ./demo_patched > demo_patched.out 2>&1); echo "demo on patched tree: rc=$?" >> $out
if [ -d $wt/_build ]; then
  (cmake --build $wt/_build -j6 > $sd/rebuild.log 2>&1; echo "rebuild rc=$?" >> $out; ctest --test-dir $wt/_build -j6 --timeout 900 > $sd/ctest_confirm.log 2>&1; tail -4 $sd/ctest_confirm.log >> $out)
fi
(cd /verif && VERIF_REPO=$wt python3 engine/driver.py $pid --no-evidence "$@" 2>&1 | grep -E "^\[|VIOLATION|KNOWN|tier=|^ERROR" | cut -c1-300 >> $out)
cd $wt && git checkout -q -- include
echo DONE >> $out
