#!/usr/bin/env python3
"""Driver: builds every query of a property from /repo's CURRENT working tree
(clang -> IR -> irpass -> ll2c -> C), validates the translation differentially, runs CBMC (main query and
its reachability-witness twin), replays counterexamples natively against the clang-compiled real code,
applies known_findings.txt, writes evidence/<ID>.json and prints VIOLATION / KNOWN-FINDING lines.

Exit codes: 0 = every query held (or only listed known findings failed); 1 = a replayed violation
(VIOLATION line printed); 2 = check error / inconclusive (timeout, unwinding bound, unconfirmed
counterexample, translator mismatch) - never reported as success and never as a violation.
"""
import copy, os, sys, re, json, time, subprocess, shutil, hashlib, importlib.util, concurrent.futures as cf

VERIF = os.path.dirname(os.path.dirname(os.path.abspath(__file__)))
REPO = os.environ.get('VERIF_REPO', '/repo')
ENG = os.path.join(VERIF, 'engine'); RT = os.path.join(VERIF, 'rt'); HARN = os.path.join(VERIF, 'harness')
CLANGXX = 'clang++-14'; CLANG = 'clang-14'

BASE_CXX = ['-std=c++17', '-O1', '-fno-vectorize', '-fno-slp-vectorize', '-fno-unroll-loops', '-fno-access-control',
            '-fno-threadsafe-statics', '-DNDEBUG', '-I' + os.path.join(REPO, 'include'), '-I' + HARN, '-I' + RT, '-w']
NOEXC = ['-fno-exceptions', '-DQUILL_NO_EXCEPTIONS']

VIOL_DESCR = ('harness property', 'data race', 'atomic access to freed memory', 'unexpected fatal error', 'quill debug assert')
ERR_DESCR = ('unwinding assertion', 'vra capacity exceeded', 'recursion unwinding', 'check error')

class Q:
    """One solver query (plus its witness twin)."""
    def __init__(s, name, harness, entry, defines=(), cxx=(), exc=False, cuts=(), models=(), unwind=8, paths=False,
                 vra='sc', cdefs=(), tier='quick', timeout=None, witness=True, expect='hold', kf=None, solver='kissat',
                 bounds='', what='', validate=60, cbmc=(), unwindset=(), mem_gb=16, depth=None, libmodels=(), forbid=(), byteloops=False, zero=(), hooks=()):
        s.__dict__.update(locals()); del s.__dict__['s']

def sh(cmd, timeout=None, env=None, cwd=None, mem_gb=None):
    pre = None
    if mem_gb:
        import resource
        lim = int(mem_gb * (1 << 30))
        pre = lambda: resource.setrlimit(resource.RLIMIT_AS, (lim, lim))
    t0 = time.time()
    try:
        p = subprocess.run(cmd, stdout=subprocess.PIPE, stderr=subprocess.STDOUT, timeout=timeout, env=env, cwd=cwd, preexec_fn=pre)
        return p.returncode, p.stdout.decode('utf-8', 'replace'), time.time() - t0
    except subprocess.TimeoutExpired as e:
        return -9, (e.stdout or b'').decode('utf-8', 'replace') + '\nTIMEOUT', time.time() - t0

class CheckError(Exception): pass

def build_c(q, bdir, log):
    """harness.cpp --clang--> .ll --irpass--> .p.ll --ll2c--> gen.c ; returns info dict"""
    os.makedirs(bdir, exist_ok=True)
    src = os.path.join(HARN, q.harness)
    ll = os.path.join(bdir, 'h.ll'); pll = os.path.join(bdir, 'h.p.ll'); gen = os.path.join(bdir, 'gen.c')
    flags = BASE_CXX + ([] if q.exc else NOEXC) + list(q.cxx) + ['-D' + d for d in q.defines]
    rc, out, t = sh([CLANGXX] + flags + ['-S', '-emit-llvm', src, '-o', ll], timeout=600)
    if rc: raise CheckError('clang failed on %s:\n%s' % (q.harness, out[-4000:]))
    # canonical loops (single latch per loop): several back-edges into one header are separate 'loops' for CBMC,
    # whose unwinding then explodes combinatorially
    rc, out, t1 = sh(['opt-14', '-S', '-passes=loop-simplify', ll, '-o', ll + '.ls'], timeout=600)
    if rc: raise CheckError('opt loop-simplify failed: ' + out[-2000:])
    os.replace(ll + '.ls', ll)
    rc, out, t2 = sh(['python3', os.path.join(ENG, 'irpass.py'), ll, pll, '-j' + os.path.join(bdir, 'irp.json')] + ['-c' + c for c in q.cuts] + ['-f' + c for c in q.forbid] + ['-z' + c for c in q.zero] + ['-r' + c.lstrip('?') for c in q.hooks], timeout=600)
    if rc: raise CheckError('irpass failed: ' + out[-4000:])
    rc, out, t3 = sh(['python3', os.path.join(ENG, 'll2c.py'), pll, gen, q.entry, '-j' + os.path.join(bdir, 'l2c.json')], timeout=900,
                     env=dict(os.environ, VLL_BYTELOOPS='1' if q.byteloops else '0'))
    if rc: raise CheckError('ll2c failed (unsupported construct => no verdict):\n' + out[-4000:])
    irp = json.load(open(os.path.join(bdir, 'irp.json'))); l2c = json.load(open(os.path.join(bdir, 'l2c.json')))
    for hk in q.hooks:
        if hk.startswith('?'): continue          # optional hook: the function need not exist in every version of the code
        if not any(re.search(hk.rsplit('=', 1)[0], n) for n in irp.get('hooks', [])): raise CheckError('hook pattern %r matched no function (inlined away?)' % hk)
    for rx in list(q.zero):
        if not any(re.search(rx, n) for n in irp.get('zero_stubs', [])) and not os.environ.get('VERIF_LAX_STUBS'): raise CheckError('stub pattern %r matched no function (inlined away?)' % rx)
    return {'ll': ll, 'pll': pll, 'gen': gen, 'build_s': round(t + t2 + t3, 2), 'cut': irp['cut'], 'forbidden': irp.get('forbidden', []), 'zero_stubs': irp.get('zero_stubs', []), 'hooks': irp.get('hooks', []), 'atomics': irp['atomics'],
            'translated': l2c['translated'], 'external': l2c['external']}

def rt_files(q, real=False):
    # libmodels = C models of library functions (libstdc++/libc): used by CBMC and by the gcc build of the generated C;
    # the native build of the REAL code links the real library instead, so the differential validation also checks them
    return [os.path.join(RT, 'vrt.c'), os.path.join(RT, 'vra.c')] + [os.path.join(RT, m) for m in q.models] + ([] if real else [os.path.join(RT, m) for m in q.libmodels])

def vra_defs(q):
    if q.vra == 'sc': return ['-DVRA_SC']
    d = []
    for k, v in q.vra.items(): d.append('-DVRA_%s=%s' % (k, v))
    return d

def native_build(q, b, bdir, log):
    """two native binaries: gen.c via gcc, and the clang-compiled irpass'd IR (the real code); both link rt/ natively"""
    cd = ['-DVLL_ENTRY=' + q.entry, '-I' + RT] + vra_defs(q) + ['-D' + d for d in q.cdefs]
    a = os.path.join(bdir, 'nat_gen'); r = os.path.join(bdir, 'nat_real')
    rc, out, _ = sh(['gcc', '-O1', '-w', '-fno-strict-aliasing', '-o', a, b['gen']] + rt_files(q) + cd, timeout=600)
    if rc: raise CheckError('gcc failed on generated C:\n' + out[-4000:])
    obj = os.path.join(bdir, 'h.o')
    rc, out, _ = sh([CLANG, '-O1', '-w', '-c', b['pll'], '-o', obj], timeout=600)
    if rc: raise CheckError('clang failed on rewritten IR:\n' + out[-4000:])
    objs = []
    for f in rt_files(q, real=True):
        o = os.path.join(bdir, 'r_' + os.path.basename(f) + '.o')
        rc, out, _ = sh([CLANG, '-O1', '-w', '-c', f, '-o', o, '-DVLL_EMPTY_CTORS'] + cd, timeout=600)
        if rc: raise CheckError('clang failed on rt:\n' + out[-4000:])
        objs.append(o)
    rc, out, _ = sh([CLANGXX, '-o', r, obj] + objs + ['-lpthread'], timeout=600)
    if rc: raise CheckError('link of native replay binary failed:\n' + out[-4000:])
    return a, r

def validate(q, b, bdir, seed, log):
    """translator validation: same pseudo-random nondet streams through gcc(gen.c) and clang(real IR)"""
    if not q.validate: return {'runs': 0, 'useful': 0}
    a, r = native_build(q, b, bdir, log)
    useful = 0; runs = 0
    for i in range(q.validate):
        env = dict(os.environ, VLL_SEED=str(seed * 1000 + i), VLL_QUIET='1'); env.pop('VLL_INPUTS', None)
        ra = sh([a], timeout=20, env=env); rb = sh([r], timeout=20, env=env)
        runs += 1
        if (ra[0], ra[1]) != (rb[0], rb[1]):
            raise CheckError('TRANSLATOR MISMATCH on seed %d for %s:\n--- generated C (rc %d)\n%s\n--- real IR (rc %d)\n%s' % (seed * 1000 + i, q.name, ra[0], ra[1][-1500:], rb[0], rb[1][-1500:]))
        if ra[0] == 0: useful += 1
        elif ra[0] not in (77,):
            # a concrete random run violating an assertion natively: report through the normal path (solver will find it too)
            if sum(1 for l in log if l.endswith(' for ' + q.name)) < 3: log.append('note: random native run seed %d exits %d for %s' % (seed * 1000 + i, ra[0], q.name))
    return {'runs': runs, 'useful': useful}

def cbmc_cmd(q, b, witness):
    cmd = ['cbmc', b['gen']] + rt_files(q) + ['-I', RT, '-DVLL_ENTRY=' + q.entry] + vra_defs(q) + ['-D' + d for d in q.cdefs]
    if witness: cmd += ['-DWITNESS', '--no-standard-checks']
    cmd += ['--unwind', str(q.unwind), '--unwinding-assertions', '--drop-unused-functions', '--no-malloc-may-fail', '--object-bits', '12', '--trace', '--verbosity', '8']
    for u in q.unwindset: cmd += ['--unwindset', u]
    if q.depth: cmd += ['--depth', str(q.depth)]
    if q.paths: cmd += ['--paths', 'lifo']
    elif q.solver == 'kissat': cmd += ['--external-sat-solver', 'kissat']
    elif q.solver == 'cadical': cmd += ['--sat-solver', 'cadical']
    elif q.solver == 'cvc5int': cmd += ['--cvc5', '--slice-formula']      # engine/shim/cvc5 first on PATH: cvc5 --solve-bv-as-int=sum
    cmd += list(q.cbmc)
    return cmd

RES = re.compile(r'^\[([^\]]*)\] (?:line \d+ )?(.*): (SUCCESS|FAILURE|ERROR|UNKNOWN)$', re.M)

def parse_cbmc(out):
    d = {'verdict': None, 'failed': [], 'vcc': None, 'vcc_remaining': None, 'solver_s': 0.0, 'props': 0, 'vars': None, 'clauses': None}
    if 'VERIFICATION SUCCESSFUL' in out: d['verdict'] = 'SUCCESSFUL'
    elif 'VERIFICATION FAILED' in out: d['verdict'] = 'FAILED'
    for m in RES.finditer(out):
        d['props'] += 1
        if m.group(3) != 'SUCCESS': d['failed'].append((m.group(1), m.group(2)))
    ms = re.findall(r'Generated (\d+) VCC\(s\), (\d+) remaining', out)
    if ms: d['vcc'] = sum(int(x[0]) for x in ms); d['vcc_remaining'] = sum(int(x[1]) for x in ms)
    d['solver_calls'] = len(re.findall(r'Runtime Solver: ', out))
    for m in re.finditer(r'Runtime Solver: ([0-9.e+-]+)s', out): d['solver_s'] += float(m.group(1))
    m = re.findall(r'(\d+) variables, (\d+) clauses', out)
    if m: d['vars'] = int(m[-1][0]); d['clauses'] = int(m[-1][1])
    m = re.search(r'Runtime decision procedure: ([0-9.e+-]+)s', out)
    if m: d['decision_s'] = float(m.group(1))
    return d

def trace_inputs(out, failed=()):
    """nondet draws in call order: every draw is assigned to the global vnd_last (rt/vrt.c).  With several failed
    properties CBMC prints one trace per property ("Trace for <id>:"): use the trace of a violation-class property."""
    secs = re.split(r'^Trace for ([^\n:]+):\s*$', out, flags=re.M)
    chosen = None
    if len(secs) >= 3:
        traces = list(zip(secs[1::2], secs[2::2]))
        pref = [pid for pid, d_ in failed if any(v_ in d_ for v_ in VIOL_DESCR)]
        for pid, txt in traces:
            if pid.strip() in pref: chosen = txt; break
        if chosen is None:
            nonerr = [pid for pid, d_ in failed if not any(e in d_ for e in ERR_DESCR)]
            for pid, txt in traces:
                if pid.strip() in nonerr: chosen = txt; break
        if chosen is None: chosen = traces[0][1]
    else: chosen = out
    return [int(x) for x in re.findall(r'^\s*vnd_last=(\d+)', chosen, re.M)]

def run_cbmc(q, b, witness, tmo):
    cmd = cbmc_cmd(q, b, witness)
    env = dict(os.environ, PATH=os.path.join(ENG, 'shim') + ':' + os.environ.get('PATH', '')) if q.solver == 'cvc5int' else None
    rc, out, t = sh(cmd, timeout=tmo, mem_gb=q.mem_gb, env=env)
    d = parse_cbmc(out); d['wall_s'] = round(t, 2); d['rc'] = rc; d['out'] = out; d['cmd'] = ' '.join(cmd)
    if rc == -9: d['verdict'] = 'TIMEOUT'
    elif d['verdict'] is None: d['verdict'] = 'ERROR'
    return d

def replay(q, b, bdir, inputs, rdir, log, valgrind=False):
    os.makedirs(rdir, exist_ok=True)
    open(os.path.join(rdir, 'inputs.txt'), 'w').write('\n'.join(map(str, inputs)) + '\n')
    a, r = native_build(q, b, bdir, log)
    env = dict(os.environ, VLL_INPUTS=os.path.join(rdir, 'inputs.txt')); env.pop('VLL_SEED', None)
    cmd = [r]
    if valgrind: cmd = ['valgrind', '-q', '--error-exitcode=9', r]
    rc, out, _ = sh(cmd, timeout=120, env=env)
    meta = {'property': q.pid, 'query': q.name, 'harness': q.harness, 'entry': q.entry, 'defines': list(q.defines), 'rc': rc,
            'output_tail': out[-2000:], 'how': './check %s --replay %s' % (q.pid, os.path.relpath(rdir, VERIF))}
    json.dump(meta, open(os.path.join(rdir, 'meta.json'), 'w'), indent=1)
    open(os.path.join(rdir, 'replay_output.txt'), 'w').write(out)
    confirmed = (rc == 1 and 'VASSERT FAILED' in out) or (valgrind and rc == 9) or rc < 0 or rc in (134, 139)
    m = re.search(r'VASSERT FAILED (.*)', out)
    return confirmed, (m.group(1) if m else 'rc=%d' % rc), out

def load_known():
    kf = []; fx = []
    p = os.path.join(VERIF, 'known_findings.txt')
    if os.path.exists(p):
        for ln in open(p):
            ln = ln.strip()
            if not ln or ln.startswith('#'): continue
            if ln.startswith('known:'):
                m = re.match(r'known:\s*property=(\S+)\s+query=(\S+)\s+(.*)', ln)
                if m: kf.append({'property': m.group(1), 'query': m.group(2), 'what': m.group(3)})
            elif ln.startswith('fixed:'): fx.append(ln)
    return kf, fx

def run_query(q, pid, tier, seed, bdir_root, log):
    """returns result dict for evidence; status in {'hold','violation','known','error'}"""
    q.pid = pid
    bdir = os.path.join(bdir_root, q.name)
    res = {'query': q.name, 'harness': q.harness, 'entry': q.entry, 'defines': list(q.defines), 'bounds': q.bounds, 'what': q.what,
           'unwind': q.unwind, 'mode': 'path-wise symbolic execution (--paths lifo)' if q.paths else ('merged BMC, SMT back end cvc5 --solve-bv-as-int=sum (integer encoding of the mod-2^k arithmetic)' if q.solver == 'cvc5int' else 'merged BMC, SAT back end ' + q.solver),
           'memory_model': 'SC/latest-value' if q.vra == 'sc' else 'release/acquire views ' + json.dumps(q.vra)}
    # generous caps (a loaded or slower machine must not turn a 200 s proof into an 'inconclusive'): floor 900 s quick, 1700 s thorough
    tmo = max(q.timeout or 0, 900 if tier == 'quick' else 1700)
    try:
        b = build_c(q, bdir, log)
        res.update(hooks=b['hooks'], zero_stubs=b['zero_stubs'], functions_encoded=len(b['translated']), forbidden_functions=len(b['forbidden']), cuts=b['cut'], atomics=len(b['atomics']), build_s=b['build_s'])
        res['_translated'] = b['translated']; res['_external'] = b['external']; res['_atomics'] = b['atomics']
        with cf.ThreadPoolExecutor(3) as ex:
            fv = ex.submit(validate, q, b, bdir, seed, log)
            fm = ex.submit(run_cbmc, q, b, False, tmo)
            fw = ex.submit(run_cbmc, q, b, True, tmo) if q.witness else None
            v = fv.result(); m = fm.result(); w = fw.result() if fw else None
        res['translator_validation'] = v
        open(os.path.join(bdir, 'cbmc_main.log'), 'w').write(m['cmd'] + '\n' + m['out'])
        if w: open(os.path.join(bdir, 'cbmc_witness.log'), 'w').write(w['cmd'] + '\n' + w['out'])
        for k in ('verdict', 'vcc', 'vcc_remaining', 'solver_s', 'solver_calls', 'wall_s', 'props', 'vars', 'clauses'): res[k] = m.get(k)
        res['solver_s'] = round(res['solver_s'] or 0, 2)
        def witness_check():
            if not w: return None
            wf = [d for _, d in w['failed']]
            res['witness'] = {'verdict': w['verdict'], 'wall_s': w['wall_s'], 'reachable': any('witness' in d for d in wf)}
            if w['verdict'] in ('TIMEOUT', 'ERROR'): return 'witness twin inconclusive (%s): %s' % (w['verdict'], w['out'][-600:])
            if not res['witness']['reachable']: return 'VACUOUS: witness twin not reachable - the harness does not exercise the behaviour it claims'
            bad = [d for d in wf if 'witness' not in d]
            if any(any(e in d for e in ERR_DESCR) for d in bad): return 'bound too small in witness twin: %s' % bad[:3]
            return None
        if m['verdict'] == 'SUCCESSFUL':
            werr = witness_check()
            if werr: res['status'] = 'error'; res['error'] = werr; return res
            res['status'] = 'hold'
            if q.expect == 'known':
                res['note'] = 'listed known finding did not reproduce (holds now)'
            return res
        if m['verdict'] in ('TIMEOUT', 'ERROR'):
            res['status'] = 'error'; res['error'] = 'solver inconclusive (%s) after %.0fs: %s' % (m['verdict'], m['wall_s'], m['out'][-800:]); return res
        # FAILED
        witness_check()
        descr = [d for _, d in m['failed']]
        res['failed_properties'] = descr[:10]
        if any(any(e in d for e in ERR_DESCR) for d in descr) and not any(any(v_ in d for v_ in VIOL_DESCR) for d in descr):
            res['status'] = 'error'; res['error'] = 'bound too small / shim capacity: %s' % descr[:3]; return res
        if '--slice-formula' in q.cbmc:
            # a sliced formula has no assignments to vnd_last (they do not influence the property): get the full trace of
            # a counterexample from an unsliced run (finding a counterexample is much cheaper than the proof)
            q2 = copy.copy(q); q2.cbmc = [x for x in q.cbmc if x != '--slice-formula']
            m2 = run_cbmc(q2, b, False, tmo)
            open(os.path.join(bdir, 'cbmc_unsliced.log'), 'w').write(m2['cmd'] + '\n' + m2['out'])
            if m2['verdict'] == 'FAILED': m = m2; descr = [d for _, d in m['failed']]
        inputs = trace_inputs(m['out'], m['failed'])
        rdir = os.path.join(VERIF, 'evidence', 'replay', '%s-%s' % (pid, q.name)) if REPO == '/repo' else os.path.join(bdir, 'replay')
        memfail = not any(any(v_ in d for v_ in VIOL_DESCR) for d in descr)
        ok, whatf, rout = replay(q, b, bdir, inputs, rdir, log, valgrind=memfail)
        res['replay'] = {'path': os.path.relpath(rdir, VERIF), 'confirmed': ok, 'what': whatf, 'inputs': inputs[:64]}
        if not ok:
            res['status'] = 'error'; res['error'] = 'UNCONFIRMED counterexample (does not reproduce natively: encoding/model bug, not a finding): %s' % descr[:3]; return res
        res['status'] = 'known' if q.expect == 'known' else 'violation'
        return res
    except CheckError as e:
        res['status'] = 'error'; res['error'] = str(e); return res
    except Exception as e:
        import traceback
        res['status'] = 'error'; res['error'] = 'driver exception: ' + traceback.format_exc()[-1500:]; return res

def load_prop(pid):
    p = os.path.join(VERIF, 'props', pid + '.py')
    spec = importlib.util.spec_from_file_location('prop_' + pid, p); mod = importlib.util.module_from_spec(spec)
    mod.Q = Q; spec.loader.exec_module(mod); return mod

def main():
    import argparse
    ap = argparse.ArgumentParser()
    ap.add_argument('pid'); ap.add_argument('--tier', default=os.environ.get('VERIF_TIER', 'quick'))
    ap.add_argument('--replay'); ap.add_argument('--only', help='regex over query names'); ap.add_argument('--jobs', type=int, default=5)
    ap.add_argument('--keep', action='store_true'); ap.add_argument('--no-evidence', action='store_true')
    a = ap.parse_args()
    pid = a.pid; tier = a.tier; seed = int(os.environ.get('VERIF_SEED', '1') or 1)
    t0 = time.time()
    mod = load_prop(pid)
    bdir_root = os.path.join(VERIF, 'build', pid + '-' + tier + ('' if REPO == '/repo' else '-' + hashlib.md5(REPO.encode()).hexdigest()[:8]))
    if a.replay:
        rdir = os.path.join(VERIF, a.replay) if not os.path.isabs(a.replay) else a.replay
        meta = json.load(open(os.path.join(rdir, 'meta.json')))
        q = [x for x in mod.QUERIES if x.name == meta['query']][0]; q.pid = pid
        log = []; b = build_c(q, os.path.join(bdir_root, q.name), log)
        inputs = [int(x) for x in open(os.path.join(rdir, 'inputs.txt')).read().split()]
        ok, whatf, out = replay(q, b, os.path.join(bdir_root, q.name), inputs, rdir, log)
        print(out); print('replay %s: %s' % ('REPRODUCED' if ok else 'did not reproduce', whatf)); sys.exit(1 if ok else 0)
    qs = [q for q in mod.QUERIES if q.tier == 'quick' or (tier == 'thorough' and q.tier == 'thorough') or (a.only and q.tier not in ('quick', 'thorough') and tier == 'thorough')]
    if a.only: qs = [q for q in qs if re.search(a.only, q.name)]
    shutil.rmtree(bdir_root, ignore_errors=True); os.makedirs(bdir_root, exist_ok=True)
    shutil.rmtree(os.path.join(VERIF, 'evidence', 'replay'), ignore_errors=True) if False else None
    log = []
    results = []
    with cf.ThreadPoolExecutor(a.jobs) as ex:
        futs = {ex.submit(run_query, q, pid, tier, seed, bdir_root, log): q for q in qs}
        for f in cf.as_completed(futs):
            r = f.result(); results.append(r)
            sys.stderr.write('[%s] %-28s %-9s cbmc=%s %.1fs solver=%.1fs vcc=%s %s\n' % (pid, r['query'], r['status'], r.get('verdict'), r.get('wall_s') or 0, r.get('solver_s') or 0, r.get('vcc'), (r.get('error') or '')[:3000]))
    for r in results:
        q_ = [x for x in qs if x.name == r['query']][0]
        if q_.expect == 'must_fail':      # liveness witness of an assertion: this query MUST produce a replayed counterexample
            if r['status'] == 'violation': r['status'] = 'hold'; r['note'] = 'expected counterexample produced and replayed (the assertion is live)'
            elif r['status'] == 'hold': r['status'] = 'error'; r['error'] = 'liveness witness did not fire: the forbidden behaviour was NOT reachable where it must be'
    results.sort(key=lambda r: [q.name for q in qs].index(r['query']))
    kf, fx = load_known()
    viol = 0; err = 0; lines = []
    for r in results:
        q = [x for x in qs if x.name == r['query']][0]
        if r['status'] == 'violation':
            listed = [k for k in kf if k['property'] == pid and re.fullmatch(k['query'], r['query'])]
            if listed: r['status'] = 'known'; r['known_finding'] = listed[0]['what']
        if r['status'] == 'known':
            what = r.get('known_finding') or next((k['what'] for k in kf if k['property'] == pid and re.fullmatch(k['query'], r['query'])), None)
            if what is None: r['status'] = 'violation'
            else: lines.append('KNOWN-FINDING: property=%s %s' % (pid, what))
        if r['status'] == 'violation':
            viol += 1; lines.append('VIOLATION property=%s replay=%s' % (pid, r['replay']['path']))
        if r['status'] == 'error': err += 1
    for l in log: sys.stderr.write(l + '\n')
    # ---- evidence
    funcs = sorted({f for r in results for f in r.get('_translated', [])})
    ext = sorted({f for r in results for f in r.get('_external', [])})
    atom = sorted({'%s %s %s' % (a_[0].strip('@"')[:80], a_[1], a_[2]) for r in results for a_ in r.get('_atomics', [])})
    samples = []
    for r in results:
        s = {k: v for k, v in r.items() if not k.startswith('_')}
        samples.append(s)
    # non-trivial = witness twin reachable; a query declared without a twin counts when its own assertions were reached
    # (CBMC reports at least one reachable harness assertion: props > 0 and the query is not vacuous by construction)
    nontriv = len({r['query'] for r in results if (r.get('witness', {}).get('reachable') or (not [x for x in qs if x.name == r['query']][0].witness and (r.get('props') or 0) > 0)) and r['status'] in ('hold', 'known', 'violation')})
    ev = {
        'property_id': pid, 'tier': tier, 'seed': seed, 'level': 'model_checking',
        'coverage': {
            'evaluations': sum(1 for r in results if r.get('verdict') in ('SUCCESSFUL', 'FAILED')) + sum(1 for r in results if r.get('witness')),
            'distinct_nontrivial': nontriv,
            'rule': 'one evaluation = one CBMC run (main query or its reachability-witness twin) over the C generated from clang IR of the real quill functions; a query is non-trivial when its witness twin (same harness, -DWITNESS, final assert(false) after the interesting behaviour) is reachable; distinct = distinct harness/config',
            'samples': samples,
            'queries': len(results), 'queries_held': sum(1 for r in results if r['status'] == 'hold'),
            'queries_error': err, 'violations': viol, 'known_findings': sum(1 for r in results if r['status'] == 'known'),
            'vcc_total': sum(r.get('vcc') or 0 for r in results), 'solver_s': round(sum(r.get('solver_s') or 0 for r in results), 2),
            'translator_validation_runs': sum((r.get('translator_validation') or {}).get('runs', 0) for r in results),
            'functions_encoded': funcs, 'external_models_or_cuts': ext, 'atomic_accesses_encoded': atom,
            'bounds': getattr(mod, 'BOUNDS', ''), 'outside_claim': getattr(mod, 'OUTSIDE', ''),
            'exhaustive': False,
        },
        'assumptions': list(getattr(mod, 'ASSUMPTIONS', [])) + [
            'clang-14 -O1 IR is the meaning of the source; engine/ll2c.py + rt/ models are validated differentially on every run, not proved',
            'CBMC 6.11 + SAT back end are trusted; all verdicts are bounded (unwinding assertions on)',
            'allocation never fails'],
        'wall_s': round(time.time() - t0, 2), 'violations': viol,
    }
    if not a.no_evidence and not a.only:
        os.makedirs(os.path.join(VERIF, 'evidence'), exist_ok=True)
        json.dump(ev, open(os.path.join(VERIF, 'evidence', pid + '.json'), 'w'), indent=1)
    for l in lines: print(l)
    print('%s tier=%s queries=%d held=%d known=%d violations=%d errors=%d wall=%.0fs' % (pid, tier, len(results), ev['coverage']['queries_held'], ev['coverage']['known_findings'], viol, err, time.time() - t0))
    if not a.keep: shutil.rmtree(bdir_root, ignore_errors=True)
    if viol: sys.exit(1)
    if err:
        for r in results:
            if r['status'] == 'error': print('ERROR query=%s: %s' % (r['query'], (r.get('error') or '')[:1500]))
        sys.exit(2)
    sys.exit(0)

if __name__ == '__main__':
    main()
