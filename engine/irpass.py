#!/usr/bin/env python3
"""Text pass over LLVM-14 IR (typed pointers) produced by clang from a harness that includes the real
quill headers.

 * every atomic instruction becomes a call into the memory-model shim (rt/vra.c) and KEEPS the memory
   order found in the IR, so weakening an order in quill's source changes the encoded semantics;
 * functions on the cut list (regexes over the mangled name) lose their body (define -> declare): the
   C model linked from rt/ is used instead, both by the C translation and by the native replay build;
 * a few libc symbols are renamed to runtime entry points (abort, __assert_fail, printf ...).

The output is still valid IR: `clang -c` turns it into the native replay/validation object, and
ll2c.py turns it into C for CBMC.
"""
import re, sys

ORD = {'unordered': 0, 'monotonic': 0, 'acquire': 1, 'release': 2, 'acq_rel': 3, 'seq_cst': 4}
ORDRE = r'(unordered|monotonic|acquire|release|acq_rel|seq_cst)'
RMW = {'xchg': 0, 'add': 1, 'sub': 2, 'and': 3, 'or': 4, 'xor': 5}

RENAME = {
    '@abort': '@vll_abort',
    '@__assert_fail': '@vll_assert_fail',
    '@printf': '@vll_printf',
    '@puts': '@vll_puts',
    '@fprintf': '@vll_fprintf',
    '@__cxa_atexit': '@vll_cxa_atexit',
    '@__cxa_guard_acquire': '@vll_guard_acquire',
    '@__cxa_guard_release': '@vll_guard_release',
    '@__cxa_pure_virtual': '@vll_pure_virtual',
    '@llvm.x86.rdtsc': '@vll_rdtsc',
}

DECLS = '''
declare i64 @vra_load(i8*, i32, i32)
declare void @vra_store(i8*, i64, i32, i32)
declare i64 @vra_rmw(i8*, i32, i64, i32, i32)
declare i64 @vra_cas(i8*, i64, i64, i32, i32, i32)
declare void @vra_fence(i32)
declare void @vll_forbidden()
'''

class Pass:
    def __init__(s, cuts, forbid=()):
        s.n = 0
        s.cuts = [re.compile(c) for c in cuts]
        s.forbid = [re.compile(c) for c in forbid]; s.forbid_names = []
        s.zero = []; s.zero_names = []
        s.redirect = []; s.redirect_names = []; s.extra_decls = []
        s.cut_names = []
        s.atomics = []     # (function, kind, order)
        s.fences = 0

    def tmp(s):
        s.n += 1
        return '%%vra.%d' % s.n

    def to_i64(s, out, ty, val):
        """emit code converting `val` of type `ty` to i64, return operand text"""
        if ty == 'i64': return val
        t = s.tmp()
        if ty.endswith('*'): out.append('  %s = ptrtoint %s %s to i64' % (t, ty, val))
        else: out.append('  %s = zext %s %s to i64' % (t, ty, val))
        return t

    def from_i64(s, out, dst, ty, val):
        if ty == 'i64': out.append('  %s = bitcast i64 %s to i64' % (dst, val))
        elif ty.endswith('*'): out.append('  %s = inttoptr i64 %s to %s' % (dst, val, ty))
        else: out.append('  %s = trunc i64 %s to %s' % (dst, val, ty))

    def bits(s, ty):
        if ty.endswith('*'): return 64
        m = re.fullmatch(r'i(\d+)', ty)
        if not m: raise SystemExit('irpass: atomic on unsupported type ' + ty)
        return int(m.group(1))

    def ptr(s, out, pty, pval):
        if pty == 'i8*': return pval
        t = s.tmp(); out.append('  %s = bitcast %s %s to i8*' % (t, pty, pval)); return t

    def line(s, ln, fn, out):
        m = re.match(r'^  (%\S+) = load atomic (volatile )?(.+?), (\S+\*) (.+) ' + ORDRE + r', align \d+(.*)$', ln)
        if m and '=' not in m.group(3):
            dst, _, ty, pty, pval, o, rest = m.groups()
            p = s.ptr(out, pty, pval); r = s.tmp()
            out.append('  %s = call i64 @vra_load(i8* %s, i32 %d, i32 %d)' % (r, p, s.bits(ty), ORD[o]))
            s.from_i64(out, dst, ty, r); s.atomics.append((fn, 'load', o)); return
        m = re.match(r'^  store atomic (volatile )?(\S+) (.+?), (\S+\*) (.+) ' + ORDRE + r', align \d+(.*)$', ln)
        if m:
            _, ty, val, pty, pval, o, rest = m.groups()
            p = s.ptr(out, pty, pval); v = s.to_i64(out, ty, val)
            out.append('  call void @vra_store(i8* %s, i64 %s, i32 %d, i32 %d)' % (p, v, s.bits(ty), ORD[o]))
            s.atomics.append((fn, 'store', o)); return
        m = re.match(r'^  (%\S+) = atomicrmw (volatile )?(\w+) (\S+\*) (.+), (\S+) (\S+) ' + ORDRE + r'(, align \d+)?(.*)$', ln)
        if m:
            dst, _, op, pty, pval, ty, val, o = m.groups()[:8]
            if op not in RMW: raise SystemExit('irpass: atomicrmw ' + op)
            p = s.ptr(out, pty, pval); v = s.to_i64(out, ty, val); r = s.tmp()
            out.append('  %s = call i64 @vra_rmw(i8* %s, i32 %d, i64 %s, i32 %d, i32 %d)' % (r, p, RMW[op], v, s.bits(ty), ORD[o]))
            s.from_i64(out, dst, ty, r); s.atomics.append((fn, 'rmw.' + op, o)); return
        m = re.match(r'^  (%\S+) = cmpxchg (weak )?(volatile )?(\S+\*) (.+), (\S+) (\S+), (\S+) (\S+) ' + ORDRE + ' ' + ORDRE + r'(, align \d+)?(.*)$', ln)
        if m:
            dst, _, _, pty, pval, ty, e, ty2, n, o1, o2 = m.groups()[:11]
            p = s.ptr(out, pty, pval); ev = s.to_i64(out, ty, e); nv = s.to_i64(out, ty, n); r = s.tmp()
            out.append('  %s = call i64 @vra_cas(i8* %s, i64 %s, i64 %s, i32 %d, i32 %d, i32 %d)' % (r, p, ev, nv, s.bits(ty), ORD[o1], ORD[o2]))
            o = s.tmp(); s.from_i64(out, o, ty, r)
            c = s.tmp(); out.append('  %s = icmp eq %s %s, %s' % (c, ty, o, e))
            a = s.tmp(); out.append('  %s = insertvalue { %s, i1 } undef, %s %s, 0' % (a, ty, ty, o))
            out.append('  %s = insertvalue { %s, i1 } %s, i1 %s, 1' % (dst, ty, a, c))
            s.atomics.append((fn, 'cas', o1)); return
        m = re.match(r'^  fence (syncscope\("[^"]*"\) )?' + ORDRE, ln)
        if m:
            if m.group(1):      # compiler-only fence (signal fence): no inter-thread meaning
                return
            out.append('  call void @vra_fence(i32 %d)' % ORD[m.group(2)]); s.fences += 1; return
        if re.search(r'\b(load atomic|store atomic|atomicrmw|cmpxchg)\b', ln) and not ln.lstrip().startswith(';'):
            raise SystemExit('irpass: unhandled atomic instruction: ' + ln)
        out.append(ln)

    def is_cut(s, name):
        n = name.strip('@"')
        return any(c.search(n) for c in s.cuts)

    def declare_from_define(s, hdr):
        # hdr: 'define <linkage...> <ret> @name(<params>) <attrs> {'
        m = re.search(r'(@"(?:[^"\\]|\\.)*"|@[-a-zA-Z$._0-9]+)\(', hdr)
        start = m.end(); depth = 1; i = start
        while depth:
            ch = hdr[i]
            if ch == '(': depth += 1
            elif ch == ')': depth -= 1
            i += 1
        head = hdr[len('define'):m.start()]
        head = re.sub(r'\b(linkonce_odr|linkonce|weak_odr|weak|internal|private|available_externally|dso_local|hidden|protected|unnamed_addr|local_unnamed_addr)\b', '', head)
        params = hdr[start:i-1]
        # drop parameter names
        params = re.sub(r' %"(?:[^"\\]|\\.)*"(?=,|$)| %[-a-zA-Z$._0-9]+(?=,|$)', '', params)
        return 'declare %s %s(%s)' % (' '.join(head.split()), m.group(1), params)

    def run(s, text):
        for a, b in RENAME.items():
            text = re.sub(re.escape(a) + r'(?=[^-a-zA-Z$._0-9])', b, text)
        # renaming can produce two declarations of one symbol: keep the first
        seen_decl = set(); ded = []
        for ln in text.split('\n'):
            if ln.startswith('declare '):
                m_ = re.search(r'(@"(?:[^"\\]|\\.)*"|@[-a-zA-Z$._0-9]+)\(', ln)
                if m_:
                    if m_.group(1) in seen_decl: continue
                    seen_decl.add(m_.group(1))
            ded.append(ln)
        text = '\n'.join(ded)
        out = []; lines = text.split('\n'); i = 0; fn = None
        while i < len(lines):
            ln = lines[i]
            if ln.startswith('define'):
                m = re.search(r'(@"(?:[^"\\]|\\.)*"|@[-a-zA-Z$._0-9]+)\(', ln)
                fn = m.group(1)
                if any(c.search(fn.strip('@"')) for c in s.forbid):
                    # forbidden on the analysed path: reaching it is a violation (used for "no allocation / no formatting")
                    s.forbid_names.append(fn.strip('@"'))
                    out.append(re.sub(r'\s+personality .*\{$', ' {', ln)); out.append('  call void @vll_forbidden()'); out.append('  unreachable'); out.append('}')
                    while lines[i] != '}': i += 1
                    i += 1; fn = None; continue
                rd = [(c, hk) for c, hk in s.redirect if c.search(fn.strip('@"'))]
                if rd:
                    # hook: the harness observes / replaces this function (same LLVM signature: extern "C" in the harness)
                    hk = rd[0][1]; s.redirect_names.append(fn.strip('@"') + ' -> ' + hk)
                    mh = re.search(r'(@"(?:[^"\\]|\\.)*"|@[-a-zA-Z$._0-9]+)\(', ln)
                    st_ = mh.end(); dp = 1; k_ = st_
                    while dp:
                        dp += {'(': 1, ')': -1}.get(ln[k_], 0); k_ += 1
                    params = ln[st_:k_ - 1]
                    rty = re.match(r'define\s+(?:(?:linkonce_odr|weak_odr|internal|dso_local|hidden|noundef|nonnull|zeroext|signext|align \d+|dereferenceable\(\d+\)|dereferenceable_or_null\(\d+\)|noalias)\s+)*(.+?)\s+@', ln).group(1)
                    # split params at top level
                    ps = []; cur_ = ''; dp = 0
                    for ch in params:
                        if ch in '(<[{': dp += 1
                        if ch in ')>]}': dp -= 1
                        if ch == ',' and dp == 0: ps.append(cur_.strip()); cur_ = ''
                        else: cur_ += ch
                    if cur_.strip(): ps.append(cur_.strip())
                    args = []
                    for p_ in ps:
                        nm = re.search(r'(%"(?:[^"\\]|\\.)*"|%[-a-zA-Z$._0-9]+)$', p_).group(1)
                        ty = re.sub(r'\s+(noundef|nonnull|nocapture|readonly|readnone|writeonly|noalias|signext|zeroext|returned|align \d+|dereferenceable\(\d+\)|dereferenceable_or_null\(\d+\))\b', '', ' ' + p_[:p_.rindex(nm)]).strip()
                        args.append((ty, nm))
                    out.append(re.sub(r'\s+personality .*\{$', ' {', ln))
                    call = 'call %s @%s(%s)' % (rty, hk, ', '.join('%s %s' % a for a in args))
                    if rty == 'void': out.append('  ' + call); out.append('  ret void')
                    else: out.append('  %vll.hook.r = ' + call); out.append('  ret %s %%vll.hook.r' % rty)
                    out.append('}')
                    if not re.search(r'^(declare|define) [^\n]*@' + re.escape(hk) + r'\(', text, re.M): s.extra_decls.append('declare %s @%s(%s)' % (rty, hk, ', '.join(a[0] for a in args)))
                    while lines[i] != '}': i += 1
                    i += 1; fn = None; continue
                if any(c.search(fn.strip('@"')) for c in s.zero):
                    # stub: empty body returning a zero value (formatting / rendering that is not the subject of the property)
                    s.zero_names.append(fn.strip('@"'))
                    rty = re.match(r'define\s+(?:(?:linkonce_odr|weak_odr|internal|dso_local|hidden|noundef|nonnull|zeroext|signext|align \d+|dereferenceable\(\d+\)|dereferenceable_or_null\(\d+\)|noalias)\s+)*(.+?)\s+@', ln).group(1)
                    out.append(re.sub(r'\s+personality .*\{$', ' {', ln)); out.append('  ret void' if rty == 'void' else '  ret %s zeroinitializer' % rty); out.append('}')
                    while lines[i] != '}': i += 1
                    i += 1; fn = None; continue
                if s.is_cut(fn):
                    s.cut_names.append(fn.strip('@"'))
                    out.append(s.declare_from_define(ln))
                    while lines[i] != '}': i += 1
                    i += 1; fn = None; continue
                out.append(ln)
            elif fn is not None and ln == '}':
                fn = None; out.append(ln)
            elif fn is not None:
                s.line(ln, fn, out)
            else:
                out.append(ln)
            i += 1
        res = '\n'.join(out + sorted(set(s.extra_decls)))
        for d in DECLS.strip().split('\n'):
            nm = re.search(r'@\w+', d).group()
            if not re.search(r'^(declare|define) [^\n]*' + re.escape(nm) + r'\(', res, re.M): res += '\n' + d
        return res + '\n'

if __name__ == '__main__':
    import json
    src, dst = sys.argv[1], sys.argv[2]
    cuts = [a[2:] for a in sys.argv[3:] if a.startswith('-c')]
    forbid = [a[2:] for a in sys.argv[3:] if a.startswith('-f')]
    info = [a[2:] for a in sys.argv[3:] if a.startswith('-j')]
    p = Pass(cuts, forbid)
    p.zero = [re.compile(a[2:]) for a in sys.argv[3:] if a.startswith('-z')]
    p.redirect = [(re.compile(a[2:].rsplit('=', 1)[0]), a[2:].rsplit('=', 1)[1]) for a in sys.argv[3:] if a.startswith('-r')]
    open(dst, 'w').write(p.run(open(src).read()))
    if info:
        json.dump({'hooks': p.redirect_names, 'zero_stubs': p.zero_names, 'forbidden': p.forbid_names, 'cut': p.cut_names, 'atomics': p.atomics, 'fences': p.fences}, open(info[0], 'w'))
