# C16 — a statement reaches a sink iff its level passes logger, sink and sink filters
H = 'C16_gating.cpp'
QUERIES = [
  Q('callsite_macros', H, 'h_callsite', unwind=4, models=['m_throw.c'],
    bounds='every logger level accepted by set_log_level x every macro family (9 static levels, LOG_BACKTRACE, LOG_DYNAMIC with any of the 9 levels), one statement with one argument expression',
    what='enqueued <=> level >= logger level (real macros + real LoggerBase::should_log_statement); argument expression evaluated <=> enqueued; static/dynamic level carried correctly'),
] + [
  Q('sink_filters_%d_%d' % (nf1, f2), H, 'h_sink_filters', defines=['NF1=%d' % nf1, 'F2=%d' % f2], unwind=6, models=['m_throw.c'], libmodels=['m_string.c'],
    tier=('quick' if (nf1, f2) in ((2, 0), (1, 0), (0, 1), (3, 0)) else 'thorough'), timeout=280, cdefs=['VLL_NEW_HOOK', 'VLL_STR_NOGROW'], byteloops=True, forbid=[r'17_M_realloc_insert'], unwindset=['strlen.0:8', 'memcmp.0:8', 'vll_memcpy.0:10', 'vll_memmove.0:34', 'vll_memmove.1:34'],
    bounds='two sinks with symbolic thresholds; sink 1 has %d filter(s), sink 2 has %d, verdicts symbolic; statement levels symbolic; the last filter of sink 1 is added between two decisions' % (nf1, f2),
    what='real Sink::apply_all_filters/add_filter: written <=> level >= threshold AND all filters accept, independently per sink; local filter copy refreshed after add_filter')
  for nf1 in (0, 1, 2, 3) for f2 in (0, 1)] + [
  Q('event_level', H, 'h_event_level', unwind=4, models=['m_throw.c'],
    bounds='all static/dynamic level combinations on a reused transit-event slot',
    what='TransitEvent::log_level reports exactly the given dynamic level, and the static level when the metadata is static'),
]
C12F = [r'get_local_thread_context', r'16PatternFormatter(C2|D2|12_set_pattern)', r'18TimestampFormatter', r'^_ZSt11make_sharedIN5quill',
        r'^_ZN(5quill2v9)?(4Sink|6Filter|6detail11SinkManager|6detail13LoggerManager|6detail20ThreadContextManager|6detail10LoggerBase|10LoggerImplI2FOE|6detail13ThreadContext|6detail18TransitEventBuffer|6detail13BackendWorker|14BackendOptions)D[012]Ev$',
        r'^_ZNSt23_Sp_counted_ptr_inplace', r'^_ZNSt15_Sp_counted_ptr']
QUERIES += [Q('per_sink_loop', 'C12_lines.cpp', 'h_per_sink', defines=['TEBCAP=2'], cuts=[r'^_ZN5quill2v96detail12TransitEvent(C2|D2|aS)'], forbid=C12F,
              hooks=[r'16PatternFormatter6formatEm=vh_pf_format'], models=['m_transit.c', 'm_throw.c', 'm_env.c'], libmodels=['m_string.c', 'm_stl.c'], cdefs=['VLL_STRBLOCK=160'], unwind=24, unwindset=['strlen.0:140'], timeout=280,
              bounds='real BackendWorker::_write_log_statement on one dynamic-level event, logger with two sinks, each with/without an override pattern (4 combinations, symbolic), symbolic thresholds and level; PatternFormatter::format replaced by a hook that tells the logger formatter from the override formatter',
              what='sink i written <=> level >= threshold_i independently; each sink receives the line of its own override formatter if it has one, else the logger\'s')]
BOUNDS = 'one statement, two sinks, <= 2 filters, all level combinations'
OUTSIDE = 'K1 dynamic-level decode/reset on the real read loop (backend kernels not under the memory cap); concurrent set_log_level (single relaxed atomic: any interleaving yields the old or new level)'
ASSUMPTIONS = ['log_statement replaced by a recorder on a LoggerBase-derived type (the macros are duck-typed); filters are Filter subclasses with solver-chosen verdicts']
MANIFEST = {
 'text': 'The solver decides the level/filter gate on the real code for all level combinations at once: the real log macros expanded in the harness with the real LoggerBase level test (enqueue and argument evaluation), the real Sink::apply_all_filters/add_filter with symbolic thresholds and filter verdicts, and the level a transit event reports.',
 'note': 'One statement x two sinks x <= 2 filters; formatting not involved. Trusted: clang IR, translator, CBMC.',
 'technique': 'CBMC/SAT over clang IR of the real macros, LoggerBase and Sink filter code with symbolic levels and verdicts; native replay',
}
