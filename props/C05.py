# C05 — output is in global timestamp order when enqueues respect the grace period (dispatch kernel only)
import importlib.util, os
_spec = importlib.util.spec_from_file_location('c03', os.path.join(os.path.dirname(__file__), 'C03.py')); _m = importlib.util.module_from_spec(_spec); _m.Q = Q; _spec.loader.exec_module(_m)
QUERIES = [q for q in _m.QUERIES if q.name.startswith('K3_min_dispatch') or q.name.startswith('K1')]
# K5: the real _poll()/_exit() loops over the kernel contracts (harness/C07_exit.cpp, queries defined in C07.py)
import importlib.util as _iu, os as _os
_s7 = _iu.spec_from_file_location('c07', _os.path.join(_os.path.dirname(__file__), 'C07.py')); _m7 = _iu.module_from_spec(_s7); _m7.Q = Q; _s7.loader.exec_module(_m7)
QUERIES += [q for q in _m7.QUERIES if 'skeleton' in q.name]
BOUNDS = 'K3: 2 contexts x <= 2 buffered events; K1: one context, <= 3 records, ts_now symbolic'
OUTSIDE = 'the once-per-pass computation of ts_now from the clock and the grace period, has_pending_events_for_caching..., the poll/exit batch loops and the end-to-end ordering argument are NOT solved; backtrace replays are the documented exception'
ASSUMPTIONS = ['an event stamped exactly 2^64-1 is excluded (it is never selected by the minimum search: observation recorded in DESIGN.md)']
MANIFEST = {
 'text': 'Reduced scope (the two mechanisms the property rests on, each as a kernel): K1 - the real read loop never takes a System/Tsc-clock record stamped later than the pass\'s cut-off ts_now, nor anything behind it in the same queue (they stay queued, unconsumed), while User-clock records are never held back; K3 - among everything buffered, the real backend always writes the statement with the minimum timestamp over ALL threads next, so the written sequence is non-decreasing whenever a later-stamped statement is never buffered before an earlier one is (which is what the hold-back is for). K5 - the real _poll()/_exit() loops over these two contracts, with a symbolic non-decreasing cut-off per pass and producers that keep enqueueing records stamped after the last cut-off, never write out of global timestamp order. K1b - the real _populate_transit_events_from_frontend_queues computes that cut-off once per pass (clock at the start minus the grace period) and hands the same value to every queue. A run with all real kernels in place at once are NOT solved.',
 'note': 'Same queries as C03 K1/K3. 2 contexts x <= 2 events. Trusted: clang IR, translator, CBMC.',
 'technique': 'CBMC/SAT over clang IR of the real minimum-timestamp dispatch with symbolic timestamps; native replay',
}
