# C05 — output is in global timestamp order when enqueues respect the grace period (dispatch kernel only)
import importlib.util, os
_spec = importlib.util.spec_from_file_location('c03', os.path.join(os.path.dirname(__file__), 'C03.py')); _m = importlib.util.module_from_spec(_spec); _m.Q = Q; _spec.loader.exec_module(_m)
QUERIES = [q for q in _m.QUERIES if q.name.startswith('K3_min_dispatch')]
BOUNDS = 'K3: 2 contexts x <= 2 buffered events'
OUTSIDE = 'the timestamp hold-back in the read loop (K1 harness exists but CBMC runs out of memory), the once-per-pass computation of ts_now from the clock and the grace period, has_pending_events_for_caching..., the poll/exit batch loops and the end-to-end ordering argument are NOT solved; backtrace replays are the documented exception'
ASSUMPTIONS = ['an event stamped exactly 2^64-1 is excluded (it is never selected by the minimum search: observation recorded in DESIGN.md)']
MANIFEST = {
 'text': 'Reduced scope (one of the two mechanisms the property rests on): K3 - among everything buffered, the real backend always writes the statement with the minimum timestamp over ALL threads next, so the written sequence is non-decreasing whenever a later-stamped statement is never buffered before an earlier one is (which is what the hold-back is for). The hold-back itself (K1), the computation of ts_now once per pass and the composition are NOT solved.',
 'note': 'Same queries as C03 K3. 2 contexts x <= 2 events. Trusted: clang IR, translator, CBMC.',
 'technique': 'CBMC/SAT over clang IR of the real minimum-timestamp dispatch with symbolic timestamps; native replay',
}
