# C03 — every accepted statement reaches each sink of its logger once, in thread order (kernel obligations)
TE_CUTS = [r'^_ZN5quill2v96detail12TransitEvent(C2|D2|aS)']
def teb_ind(cap, tier):
    return Q('K2_teb_ind_cap%d' % cap, 'C03_transit_buffer.cpp', 'h_teb_ind', defines=['CAP=%d' % cap], cxx=['-fno-inline'], cuts=TE_CUTS,
             models=['m_transit.c', 'm_throw.c'], unwind=2 * cap + 4, paths=False, tier=tier,
             bounds='TransitEventBuffer capacity %d; ARBITRARY ring state (reader position any 64-bit value incl. wrap, fill 0..cap, symbolic contents, shrink flag); one operation of back+push_back (with expansion) / front+pop_front / try_shrink' % cap,
             what='K2 inductive step: FIFO content preserved exactly (checked by draining against the ghost sequence), expansion keeps order and count, shrink only when requested and empty')
def teb_bmc(cap, nops, tier):
    return Q('K2_teb_bmc_cap%d_n%d' % (cap, nops), 'C03_transit_buffer.cpp', 'h_teb_bmc', defines=['CAP=%d' % cap, 'NOPS=%d' % nops], cxx=['-fno-inline'], cuts=TE_CUTS,
             models=['m_transit.c', 'm_throw.c'], unwind=max(nops + 2, 9), paths=True, tier=tier,
             bounds='initial capacity %d, every sequence of %d operations (push with expansion / pop / request+try shrink) from the initial state' % (cap, nops),
             what='K2 bounded runs: FIFO across repeated expansion and shrink cycles')
def teb_life(icap, tier):
    return Q('K2_teb_life_icap%d' % icap, 'C03_transit_buffer.cpp', 'h_teb_life', defines=['CAP=%d' % (4 * icap), 'ICAP=%d' % icap], cxx=['-fno-inline'], cuts=TE_CUTS,
             models=['m_transit.c', 'm_throw.c'], unwind=4 * icap + 4, paths=False, tier=tier,
             bounds='requested initial capacity %d (real constructor; need not be a power of two), fixed life cycle: fill past capacity (growth), drain, request+try shrink, refill to capacity, grow again, drain; symbolic contents' % icap,
             what='K2 life cycle: FIFO content exact at every pop, growth keeps order, the shrink takes effect (capacity back to the starting one) and the shrunk ring holds a full load without slot aliasing')
QUERIES = [teb_life(3, 'quick'), teb_life(5, 'quick'), teb_life(6, 'quick'), teb_life(8, 'thorough'), teb_ind(1, 'quick'), teb_ind(2, 'quick'), teb_bmc(1, 4, 'thorough'), teb_ind(4, 'thorough')]
# K5: the real _poll()/_exit() loops over the kernel contracts (harness/C07_exit.cpp, queries defined in C07.py)
import importlib.util as _iu, os as _os
_s7 = _iu.spec_from_file_location('c07', _os.path.join(_os.path.dirname(__file__), 'C07.py')); _m7 = _iu.module_from_spec(_s7); _m7.Q = Q; _s7.loader.exec_module(_m7)
QUERIES += [q for q in _m7.QUERIES if 'skeleton' in q.name]
BOUNDS = 'K2: capacities 1..8'
OUTSIDE = 'end-to-end composition of the kernels is argued in DESIGN.md, not solved'
ASSUMPTIONS = ['TransitEvent payload replaced by a shallow 56-byte model (rt/m_transit.c)']
K3F = [r'get_local_thread_context', r'16PatternFormatter(C2|D2|12_set_pattern)', r'18TimestampFormatter', r'^_ZSt11make_sharedIN5quill', r'16BacktraceStorage', r'TransitEvent7copy_to',
       r'^_ZN(5quill2v9)?(4Sink|6Filter|6detail11SinkManager|6detail13LoggerManager|6detail20ThreadContextManager|6detail10LoggerBase|10LoggerImplI2FOE|6detail13ThreadContext|6detail18TransitEventBuffer|6detail13BackendWorker|14BackendOptions)D[012]Ev$',
       r'^_ZNSt23_Sp_counted_ptr_inplace', r'^_ZNSt15_Sp_counted_ptr', r'_cleanup_invalidated_thread_contexts', r'_flush_and_run_active_sinks']
def k3(c0, c1, tier, timeout=280, wide=1):
    return Q('K3_min_dispatch_%d_%d%s' % (c0, c1, '' if wide else '_ts20'), 'C03_k3.cpp', 'h_k3_light', defines=['NCTX=2', 'NREC=2', 'CNT0=%d' % c0, 'CNT1=%d' % c1, 'TEBCAP=2', 'TSWIDE=%d' % wide], cuts=TE_CUTS, forbid=K3F,
             hooks=[r'^_ZN5quill2v96detail13BackendWorker32_dispatch_transit_event_to_sinksE=vh_dispatch'], models=['m_transit.c', 'm_throw.c', 'm_env.c'], libmodels=['m_string.c', 'm_stl.c'],
             unwind=24, unwindset=['strlen.0:40'], tier=tier, timeout=timeout,
             bounds='2 thread contexts with %d and %d buffered Log events (' % (c0, c1) + ('any 64-bit timestamps except 2^64-1' if wide else '20-bit timestamps') + ', non-decreasing per thread, ties allowed); real _process_lowest_timestamp_transit_event called until it reports nothing left; _dispatch_transit_event_to_sinks observed through a hook',
             what='K3: each call dispatches exactly one event, the minimum timestamp over all buffers, and pops exactly that one; returns false iff all buffers are empty; the dispatched sequence is in global non-decreasing timestamp order; every buffered event dispatched once')
RDLOOP = '_ZN5quill2v96detail13BackendWorker31_read_and_decode_frontend_queueINS1_20BoundedSPSCQueueImplImEEEEmRT_PNS1_13ThreadContextEm.0'
def k1(nrec, hard, tier, timeout=280):
    return Q('K1_read_decode_r%d_h%d' % (nrec, hard), 'C03_k3.cpp', 'h_k1_light', defines=['NCTX=1', 'K1REC=%d' % nrec, 'HARDL=%d' % hard, 'TEBCAP=4'], cuts=TE_CUTS,
             forbid=K3F + [r'18TransitEventBuffer7_expandEv', r'_process_named_args_format_message', r'_populate_formatted_named_args', r'_apply_runtime_metadata', r'^_ZNK?St10_Hashtable', r'^_ZNSt6vectorIN8fmtquill3v1116basic_format_arg.*17_M_realloc_insert'],
             zero=[r'BackendWorker31_populate_formatted_log_message', r'RdtscClock'], models=['m_transit.c', 'm_throw.c', 'm_env.c'], libmodels=['m_string.c', 'm_stl.c'],
             unwind=24, unwindset=['strlen.0:40', RDLOOP + ':%d' % (nrec + 2)], cdefs=['VLL_STR_NOGROW'], byteloops=True, tier=tier, timeout=timeout,
             bounds='one context, %d record(s) written by the real log_statement (symbolic timestamps, User or System clock, last record Log or Flush), hard limit %d, ts_now symbolic (incl. "no grace period")' % (nrec, hard),
             what='K1: real _read_and_decode_frontend_queue: records decoded in order into the transit buffer with their timestamp / metadata / logger / flush flag; finish_read for exactly the decoded records; a System-clock record newer than ts_now and everything behind it stays queued, unconsumed; User-clock records are never held back; the hard limit stops the read')
QUERIES += [k1(2, 8, 'quick'), k1(2, 1, 'quick'), k1(1, 8, 'thorough', 1700), k1(3, 8, 'thorough', 1700), k1(3, 2, 'thorough', 1700)]
def k4(tier):
    return Q('K4_all_empty', 'C03_k3.cpp', 'h_k4', defines=['NCTX=2', 'TEBCAP=2'], cuts=TE_CUTS, forbid=K3F,
             hooks=[r'^_ZN5quill2v96detail13BackendWorker32_dispatch_transit_event_to_sinksE=vh_dispatch', r'^_ZN5quill2v96detail13BackendWorker36_update_active_thread_contexts_cacheEv=vh_update_cache'],
             models=['m_transit.c', 'm_throw.c', 'm_env.c'], libmodels=['m_string.c', 'm_stl.c'], unwind=24, unwindset=['strlen.0:40'], tier=tier, timeout=280,
             bounds='2 thread contexts, each with 0..1 record in its bounded queue (written by the real log_statement, queue position at the start or just before the wrap) and 0..1 buffered event (all symbolic)',
             what='K4: the real _check_frontend_queues_and_cached_transit_events_empty answers true iff no queue of ANY context holds a record and no ring holds an event - the condition for freeing removed loggers and dead thread contexts')
def k1b(tier):
    return Q('K1b_populate_pass', 'C03_k3.cpp', 'h_populate_pass', defines=['NCTX=2', 'TEBCAP=2'], cuts=TE_CUTS, forbid=K3F + [r'_read_and_decode_frontend_queueINS1_18UnboundedSPSCQueueE'],
             hooks=[r'^_ZN5quill2v96detail13BackendWorker32_dispatch_transit_event_to_sinksE=vh_dispatch', r'^_ZN5quill2v96detail13BackendWorker36_update_active_thread_contexts_cacheEv=vh_update_cache',
                    r'^_ZN5quill2v96detail13BackendWorker31_read_and_decode_frontend_queueINS1_20BoundedSPSCQueueImplImEEEE.*=vh_read_decode'],
             models=['m_transit.c', 'm_throw.c', 'm_env.c'], libmodels=['m_string.c', 'm_stl.c'], unwind=24, unwindset=['strlen.0:40'], tier=tier, timeout=280,
             bounds='2 thread contexts, grace period off or 1..1023 us (symbolic), clock any 40-bit nanosecond value, advancing while queues are read; the read loop is a hook returning symbolic counts',
             what='K1b: real _populate_transit_events_from_frontend_queues computes ONE cut-off (clock at the start of the pass minus the grace period, or "none") and passes it unchanged to the read loop of every context, each visited once in cache order; returns the sum of the reported ring sizes')
def k6(tier):
    return Q('K6_cleanup_contexts', 'C03_k3.cpp', 'h_cleanup_contexts', defines=['NCTX=2', 'TEBCAP=2'], cuts=TE_CUTS, forbid=[x for x in K3F if '_cleanup_invalidated_thread_contexts' not in x],
             hooks=[r'^_ZN5quill2v96detail13BackendWorker32_dispatch_transit_event_to_sinksE=vh_dispatch', r'^_ZNK5quill2v96detail20ThreadContextManager26has_invalid_thread_contextEv=vh_has_invalid',
                    r'^_ZN5quill2v96detail20ThreadContextManager40remove_shared_invalidated_thread_contextEPKNS1_13ThreadContextE=vh_remove_ctx'],
             models=['m_transit.c', 'm_throw.c', 'm_env.c'], libmodels=['m_string.c', 'm_stl.c'], unwind=24, unwindset=['strlen.0:40'], byteloops=True, cdefs=['VLL_PTRCELLS'], tier=tier, timeout=280,
             bounds='2 cached thread contexts, each exited or alive, with 0..1 queued record (real log_statement) and 0..1 buffered event (all symbolic)',
             what='K6: real _cleanup_invalidated_thread_contexts hands a context back for reclamation iff its thread exited AND its queue is empty AND its ring is empty (never with buffered statements), all such contexts in one call, each once; the others stay cached in order')
def k7(tier):
    return Q('K7_update_then_cleanup', 'C03_k3.cpp', 'h_update_cleanup', defines=['NCTX=2', 'TEBCAP=2'], cuts=TE_CUTS, forbid=[x for x in K3F if '_cleanup_invalidated_thread_contexts' not in x],
             hooks=[r'^_ZN5quill2v96detail13BackendWorker32_dispatch_transit_event_to_sinksE=vh_dispatch', r'^_ZNK5quill2v96detail20ThreadContextManager26has_invalid_thread_contextEv=vh_has_invalid',
                    r'^_ZN5quill2v96detail20ThreadContextManager40remove_shared_invalidated_thread_contextEPKNS1_13ThreadContextE=vh_remove_ctx'],
             models=['m_transit.c', 'm_throw.c', 'm_env.c'], libmodels=['m_string.c', 'm_stl.c'], unwind=24, unwindset=['strlen.0:40'], byteloops=True, cdefs=['VLL_PTRCELLS'], tier=tier, timeout=280,
             bounds='registry of 2 thread contexts (static storage), each exited or alive, with 0..1 queued record and 0..1 buffered event; the cache holds a prefix of them (0..2) before the refresh; new-context flag raised',
             what='K7: real _update_active_thread_contexts_cache + ThreadContextManager::new_thread_context_flag/for_each_thread_context, then real _cleanup_invalidated_thread_contexts: after a refresh every registered context is cached in order (none skipped), so every exited and drained context is handed back for reclamation by the next clean-up and the others stay')
def k7l(tier):
    q = k7(tier); q.name = 'K7_cache_refresh'; q.entry = 'h_update_only'
    q.zero = [r'^_ZNSt6vectorIPN5quill2v96detail13ThreadContextESaIS4_EE17_M_realloc_insert']      # growth of the cache vector is an empty stub: the harness gives the cache static storage for 4 entries, so growth is never needed in the call under test (a lost entry would fail the size assertion)
    q.bounds = 'registry of 2 thread contexts (static storage), each exited or alive, nothing queued or buffered; one cached before the refresh; new-context flag raised'
    q.what = 'K7: real _update_active_thread_contexts_cache + ThreadContextManager::new_thread_context_flag / for_each_thread_context: after a refresh EVERY registered context is cached, in registration order - also a context whose thread has exited with nothing pending (only cached contexts are handed back by the clean-up K6) - and the request flag is consumed'
    return q
QUERIES += [k4('quick'), k1b('quick'), k6('quick'), k7l('quick'), k7('unregistered')]      # K7 does not finish (DESIGN.md section 7)
QUERIES += [k3(2, 0, 'quick'), k3(1, 1, 'quick'), k3(1, 2, 'quick', wide=0), k3(2, 2, 'thorough', timeout=1700, wide=0), k3(1, 2, 'thorough', timeout=1700)]
# NOTE: harness/C03_backend.cpp + harness/bk.h (kernels K1/K3 on the real BackendWorker) are kept in the tree but NOT registered:
# at 1-2 contexts x 1-2 records CBMC needed > 60 GB / did not finish in 10 min (see DESIGN.md section 7).
MANIFEST = {
 'text': 'Reduced scope. Decided by the solver on the real code: K2, the per-thread backend ring (TransitEventBuffer) keeps exact FIFO content across position wrap-around, expansion and shrink (inductive step from an arbitrary ring state); K3, the real _process_lowest_timestamp_transit_event dispatches per call exactly one event, the minimum timestamp over all thread buffers, pops exactly that one and reports false iff nothing is buffered, so every buffered event is dispatched once and in global timestamp order; The per-sink fan-out is decided by C16 per_sink_loop and C12 multiline_*, the queues by C01/C02, the level gate by C16, the codec by C04. K1, the real _read_and_decode_frontend_queue on records written by the real log_statement decodes them in order into the ring with their timestamp/metadata/logger/flush flag, marks exactly the decoded records as read, stops at the hard limit and leaves a held-back record and everything behind it unconsumed. K5, the real _poll() and _exit() loops with the kernels replaced by these contracts (IR hooks) never write out of timestamp order, never lose a record while producers keep logging, and at exit write everything. The composition is thereby decided at the level of the contracts; K4, the emptiness predicate guarding clean-up, is true only when nothing is queued or buffered anywhere. K2 life cycle: a ring built by the real constructor from a requested capacity that is not a power of two keeps exact FIFO content through growth, drain, shrink (which takes effect) and refill. K7: after a cache refresh every registered thread context is cached in registration order (none skipped), so the clean-up K6 can hand back every exited and drained context. NOT solved: one run with all real kernels in place at once (too large), args decoding/rendering inside K1, the unbounded-queue read path.',
 'note': 'K2: capacities 1,2 (quick) / 4 (thorough). K1: one context, <= 3 header-only records (Log/Flush), args decoding and rendering not involved; K3: 2 contexts x <= 2 events, light worker (only the members the kernel touches are constructed), dispatch observed by an IR hook. TransitEvent payload replaced by a shallow model. Trusted: clang IR, translator, CBMC.',
 'technique': 'CBMC/SAT over clang IR of the real TransitEventBuffer and BackendWorker dispatch kernel from symbolic states; IR-level observation hooks; native replay',
}
