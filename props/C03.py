# C03 — every accepted statement reaches each sink of its logger once, in thread order (kernel obligations)
TE_CUTS = [r'^_ZN5quill2v96detail12TransitEvent(C2|D2|aS)']
def teb_ind(cap, tier):
    return Q('K2_teb_ind_cap%d' % cap, 'C03_transit_buffer.cpp', 'h_teb_ind', defines=['CAP=%d' % cap], cxx=['-fno-inline'], cuts=TE_CUTS,
             models=['m_transit.c', 'm_throw.c'], unwind=2 * cap + 4, paths=False, tier=tier,
             bounds='TransitEventBuffer capacity %d; ARBITRARY ring state (reader position any 64-bit value incl. wrap, fill 0..cap, symbolic contents, shrink flag); one operation of back+push_back (with expansion) / front+pop_front / try_shrink' % cap,
             what='K2 inductive step: FIFO content preserved exactly (checked by draining against the ghost sequence), expansion keeps order and count, shrink only when requested and empty')
def teb_bmc(cap, nops, tier):
    return Q('K2_teb_bmc_cap%d_n%d' % (cap, nops), 'C03_transit_buffer.cpp', 'h_teb_bmc', defines=['CAP=%d' % cap, 'NOPS=%d' % nops], cxx=['-fno-inline'], cuts=TE_CUTS,
             models=['m_transit.c', 'm_throw.c'], unwind=max(nops + 2, 9), paths=True, tier=tier,
             bounds='initial capacity %d, every sequence of %d operations (push with expansion / pop / request+try shrink) from the initial state' % (cap, nops),
             what='K2 bounded runs: FIFO across repeated expansion and shrink cycles')
QUERIES = [teb_ind(1, 'quick'), teb_ind(2, 'quick'), teb_bmc(1, 4, 'thorough'), teb_ind(4, 'thorough')]
BOUNDS = 'K2: capacities 1..8'
OUTSIDE = 'end-to-end composition of the kernels is argued in DESIGN.md, not solved'
ASSUMPTIONS = ['TransitEvent payload replaced by a shallow 56-byte model (rt/m_transit.c)']
BK_ZERO = [r'BackendWorker31_populate_formatted_log_message', r'PatternFormatter6formatEm', r'^_ZNK?8fmtquill', r'RdtscClock']
BK_CUTS = TE_CUTS
# functions that cannot be on a feasible path of these harnesses (no named args, no runtime metadata, no backtrace, formatter
# objects pre-set): giving them assert(false) bodies both PROVES that and keeps the symbolic execution small
BK_FORBID = [r'get_local_thread_context', r'16PatternFormatter(C2|D2|12_set_pattern)', r'18TimestampFormatter', r'_process_named_args_format_message',
             r'_populate_formatted_named_args', r'_apply_runtime_metadata', r'_format_and_split_arguments', r'sanitize_non_printable_chars',
             r'16BacktraceStorage', r'^_ZNK?St10_Hashtable', r'TransitEvent7copy_to', r'^_ZSt11make_sharedIN5quill',
             # nothing long-lived is destroyed in these harnesses: destructors of sinks, filters, loggers, managers, contexts ...
             r'^_ZN(5quill2v9)?(4Sink|7RecSink|6Filter|6detail11SinkManager|6detail13LoggerManager|6detail20ThreadContextManager|6detail10LoggerBase|10LoggerImplI2FOE|6detail13ThreadContext|6detail18TransitEventBuffer|6detail13BackendWorker|14BackendOptions)D[012]Ev$',
             r'^_ZNSt23_Sp_counted_ptr_inplace', r'^_ZNSt15_Sp_counted_ptr']
RDLOOP = '_ZN5quill2v96detail13BackendWorker31_read_and_decode_frontend_queueINS1_20BoundedSPSCQueueImplImEEEEmRT_PNS1_13ThreadContextEm.0'
def k1k3(nctx, nrec, soft, hard, tier, timeout=None):
    return Q('K1K3_c%d_r%d_s%d_h%d' % (nctx, nrec, soft, hard), 'C03_backend.cpp', 'h_k1k3', defines=['NCTX=%d' % nctx, 'NREC=%d' % nrec, 'SOFT=%d' % soft, 'HARD=%d' % hard, 'TEBCAP=4'],
             cuts=BK_CUTS, zero=BK_ZERO, forbid=BK_FORBID, models=['m_transit.c', 'm_throw.c', 'm_env.c'], libmodels=['m_string.c', 'm_stl.c'], unwind=14, tier=tier, timeout=timeout,
             unwindset=[RDLOOP + ':%d' % (nrec + 1), 'strlen.0:80'],
             bounds='%d thread contexts x 0..%d header-only statements each (symbolic increasing distinct timestamps) produced by the real log_statement into real bounded queues; one real populate pass (hard limit %d) then real minimum-timestamp dispatch until empty; one logger with two recording sinks' % (nctx, nrec, hard),
             what='K1+K3: every statement read once into its transit buffer (queues drained, counts equal), each dispatched exactly once to both sinks, per sink in non-decreasing timestamp order (thread order), nothing else written')
QUERIES += [k1k3(2, 2, 4, 8, 'quick', timeout=280)]
for _st in (1, 2, 3, 4):
    QUERIES += [Q('dbg_stop%d' % _st, 'C03_backend.cpp', 'h_k1k3', defines=['NCTX=1', 'NREC=1', 'CNT0=1', 'STOP_AFTER=%d' % _st], cuts=BK_CUTS, zero=[r'^_ZNK?8fmtquill', r'RdtscClock'], forbid=BK_FORBID, models=['m_transit.c', 'm_throw.c', 'm_env.c'], libmodels=['m_string.c', 'm_stl.c'], unwind=24, witness=False, tier='dbg', timeout=100, validate=0)]
QUERIES += [Q('dbg_k1only', 'C03_backend.cpp', 'h_k1k3', defines=['NCTX=1', 'NREC=1', 'CNT0=1', 'K1ONLY'], cuts=BK_CUTS, zero=[z for z in BK_ZERO if 'format' not in z or 'fmtquill' in z], forbid=BK_FORBID, models=['m_transit.c', 'm_throw.c', 'm_env.c'], libmodels=['m_string.c', 'm_stl.c'], unwind=24, witness=False, tier='dbg', timeout=100, validate=0,
  unwindset=['_ZN5quill2v96detail13BackendWorker31_read_and_decode_frontend_queueINS1_20BoundedSPSCQueueImplImEEEEmRT_PNS1_13ThreadContextEm.0:3'])]
