# C03 — every accepted statement reaches each sink of its logger once, in thread order (kernel obligations)
TE_CUTS = [r'^_ZN5quill2v96detail12TransitEvent(C2|D2|aS)']
def teb_ind(cap, tier):
    return Q('K2_teb_ind_cap%d' % cap, 'C03_transit_buffer.cpp', 'h_teb_ind', defines=['CAP=%d' % cap], cxx=['-fno-inline'], cuts=TE_CUTS,
             models=['m_transit.c', 'm_throw.c'], unwind=2 * cap + 4, paths=False, tier=tier,
             bounds='TransitEventBuffer capacity %d; ARBITRARY ring state (reader position any 64-bit value incl. wrap, fill 0..cap, symbolic contents, shrink flag); one operation of back+push_back (with expansion) / front+pop_front / try_shrink' % cap,
             what='K2 inductive step: FIFO content preserved exactly (checked by draining against the ghost sequence), expansion keeps order and count, shrink only when requested and empty')
def teb_bmc(cap, nops, tier):
    return Q('K2_teb_bmc_cap%d_n%d' % (cap, nops), 'C03_transit_buffer.cpp', 'h_teb_bmc', defines=['CAP=%d' % cap, 'NOPS=%d' % nops], cxx=['-fno-inline'], cuts=TE_CUTS,
             models=['m_transit.c', 'm_throw.c'], unwind=max(nops + 2, 9), paths=True, tier=tier,
             bounds='initial capacity %d, every sequence of %d operations (push with expansion / pop / request+try shrink) from the initial state' % (cap, nops),
             what='K2 bounded runs: FIFO across repeated expansion and shrink cycles')
QUERIES = [teb_ind(1, 'quick'), teb_ind(2, 'quick'), teb_bmc(1, 4, 'thorough'), teb_ind(4, 'thorough')]
BOUNDS = 'K2: capacities 1..8'
OUTSIDE = 'end-to-end composition of the kernels is argued in DESIGN.md, not solved'
ASSUMPTIONS = ['TransitEvent payload replaced by a shallow 56-byte model (rt/m_transit.c)']
# NOTE: harness/C03_backend.cpp + harness/bk.h (kernels K1/K3 on the real BackendWorker) are kept in the tree but NOT registered:
# at 1-2 contexts x 1-2 records CBMC needed > 60 GB / did not finish in 10 min (see DESIGN.md section 7).
MANIFEST = {
 'text': 'Reduced scope. Decided by the solver: kernel K2, the per-thread backend ring (TransitEventBuffer) keeps exact FIFO content across position wrap-around, expansion and shrink, as an inductive step from an arbitrary ring state. The SPSC queue obligations of this property are decided by C01/C02 (exactly-once, in order, across growth), the level gate by C16, the codec by C04. The read/decode loop (K1), the minimum-timestamp dispatch (K3), the clean-up condition (K4) and the poll skeleton (K5) on the real BackendWorker could NOT be brought under the memory/time caps and are not claimed.',
 'note': 'Transit ring capacities 1,2 (quick) / 4 (thorough); TransitEvent payload replaced by a shallow model. Composition of the kernels is an argument in DESIGN.md, not solved. Trusted: clang IR, translator, CBMC.',
 'technique': 'CBMC/SAT inductive step over clang IR of the real TransitEventBuffer from a symbolic ring state; native replay',
}
