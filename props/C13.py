# C13 (reduced) — rendered time: the cached, incrementally patched string equals a fresh rendering of each instant
POP = r'^_ZN5quill2v96detail14StringFromTime49_populate_pre_formatted_string_and_cached_indexesEl=vh_populate'
HOOKS = [r'^_ZN8fmtquill3v119format_toIPcJR?K?jE=vh_fmt_u32', r'^_ZN8fmtquill3v119format_toIPcJRlE=vh_fmt_i64', r'^_ZN5quill2v96detail14StringFromTime14_safe_strftimeEPKclNS0_8TimezoneE=vh_safe_strftime']
def rlen(parts):
    import re as _re
    return sum(sum({'s': 10, 'u': 1, '%': 1, 'A': 9}.get(c[1], 2) if c[0] == '%' else 1 for c in _re.findall(r'%.|.', p)) for p in parts)
def sft(name, parts, tier, ncalls=3, local=False, tzany=False, window=172800, timeout=280, unwind=24, dst=False):
    pattern = ''.join(parts)
    return Q(name, 'C13_sft.cpp', 'h_sft', defines=['PARTS=%s' % ','.join('"%s"' % p for p in parts), 'PATTERN="%s"' % pattern, 'NCALLS=%d' % ncalls, 'WINDOW=%d' % window, 'RLEN=%d' % rlen(parts)] + (['LOCALTZ'] if local else []) + (['TZANY'] if tzany else []) + (['DST'] if dst else []),
             hooks=HOOKS + [POP], byteloops=True, forbid=[r'^_ZN8fmtquill3v11(6detail)?10vformat_to'],
             models=['m_throw.c', 'm_time.c', 'm_env.c'], libmodels=['m_string.c', 'm_stl.c'], unwind=unwind, unwindset=['_ZN5quill2v96detail14StringFromTime16format_timestampB5cxx11El.0:%d' % (sum(1 for p in parts if p in ('%H', '%M', '%S', '%I', '%k', '%l', '%s')) + 2)], cdefs=['VLL_TIME32', 'VLL_STR_NOGROW'], cbmc=['--slice-formula'], tier=tier, timeout=timeout,
             bounds='pattern "%s" (split parts given), %s, %d calls with any instants (any order, repeats, backwards) in a %d-second window of ten-digit epochs starting at a midnight' % (pattern, ('a local zone at any quarter-hour offset -14h..+14h' if tzany else 'a local zone at UTC-5 / UTC+5:30 / UTC+5:45') if local else 'GMT', ncalls, window) + (', with one daylight-saving transition (+-1 h) at any quarter-hour instant of the window' if dst else ''),
             what='real StringFromTime::format_timestamp (+ _populate_pre_formatted_string_and_cached_indexes, _safe_strftime, next noon/midnight, next quarter hour): the incrementally patched cached string equals a fresh strftime rendering of each instant - no stale hour/minute/second/AM-PM/weekday field across second, minute, hour, noon, midnight and recalculation boundaries, nor after going back in time')
def pop(name, parts, tier, local=False, window=172800, timeout=280, unwind=24):
    pattern = ''.join(parts)
    return Q(name, 'C13_sft.cpp', 'h_populate', defines=['PARTS=%s' % ','.join('"%s"' % p for p in parts), 'PATTERN="%s"' % pattern, 'WINDOW=%d' % window, 'RLEN=%d' % rlen(parts)] + (['LOCALTZ'] if local else []),
             hooks=HOOKS, byteloops=True, forbid=[r'^_ZN8fmtquill3v11(6detail)?10vformat_to', r'^_ZNSt6vectorISt4pairImN5quill2v96detail14StringFromTime11format_typeEESaIS6_EE17_M_realloc_insert'],
             models=['m_throw.c', 'm_time.c', 'm_env.c'], libmodels=['m_string.c', 'm_stl.c'], unwind=unwind, cdefs=['VLL_STR_NOGROW', 'VLL_TIME32'], tier=tier, timeout=timeout,
             bounds='pattern "%s" (split parts given), %s, any instant in a %d-second window' % (pattern, 'a local zone at any quarter-hour offset -14h..+14h' if local else 'GMT', window),
             what='real _populate_pre_formatted_string_and_cached_indexes == the plain-C contract used by the format_timestamp queries (cached instant, seconds of day, rendered parts, position and kind of each patchable field)')
SFT_INIT = r'^_ZN5quill2v96detail14StringFromTime4initENSt7__cxx1112basic_stringIcSt11char_traitsIcESaIcEEENS0_8TimezoneE=vh_sft_init'
SFT_FMT = r'^_ZN5quill2v96detail14StringFromTime16format_timestampB5cxx11El=vh_sft_format'
def tsf_ctor(flen, tier, timeout=280):
    return Q('tsf_ctor_len%d' % flen, 'C13_tsf.cpp', 'h_tsf_ctor', defines=['FLEN=%d' % flen, 'NCALLS=1'], hooks=[SFT_INIT, SFT_FMT], byteloops=True,
             models=['m_throw.c', 'm_env.c'], libmodels=['m_string.c', 'm_stl.c'], unwind=18, cdefs=['VLL_STR_NOGROW'], tier=tier, timeout=timeout,
             bounds='every pattern of 0..%d bytes over {%%, Q, m, u, n, s, H, :}, GMT or local' % flen,
             what='real TimestampFormatter constructor: two different fractional specifiers are refused; otherwise the kind is recorded and StringFromTime::init receives exactly the text before the specifier and (only when non-empty) the text after it, with the configured zone')
def tsf_fmt(ncalls, nsbits, tier, kind=3, timeout=280):
    return Q('tsf_format_k%d_n%d_b%d' % (kind, ncalls, nsbits), 'C13_tsf.cpp', 'h_tsf_format', defines=['NCALLS=%d' % ncalls, 'NSBITS=%d' % nsbits, 'KIND=%d' % kind], hooks=[SFT_INIT, SFT_FMT], byteloops=True,
             forbid=[r'basic_memory_bufferIcLm32ESaIcEE4grow'],
             models=['m_throw.c', 'm_env.c'], libmodels=['m_string.c', 'm_stl.c'], unwind=18, cdefs=['VLL_STR_NOGROW'], tier=tier, timeout=timeout,
             bounds='%d call(s), any instant below 2^%d ns, specifier kind %s, with or without a second part' % (ncalls, nsbits, ['none', '%Qms', '%Qus', '%Qns'][kind]),
             what='real TimestampFormatter::format_timestamp + _write_fractional_seconds + fmtquill::format_int: part1, then exactly 3/6/9 zero-padded digits of the sub-second fraction (truncated, never rounded), then part2; both parts receive floor(ns/1e9)')
P_HMS = ['%H', ':', '%M', ':', '%S']
P_12 = ['%I', ':', '%M', ' %p']
P_LK = ['%l', '%p ', '%k']
P_WD = ['%u ', '%H', ':', '%M']
P_EP = ['%s', ' ', '%S']
P_WN = ['%A ', '%H']
QUERIES = [tsf_ctor(6, 'quick'), tsf_ctor(8, 'quick'), tsf_fmt(1, 20, 'unregistered', kind=3), sft('hms_gmt', P_HMS, 'quick', ncalls=2, unwind=12), pop('populate_hms_gmt', P_HMS, 'quick'),
           sft('i_p_gmt', P_12, 'quick', ncalls=2, unwind=12), pop('populate_i_p_local', P_12, 'quick', local=True),
           sft('hms_localany', P_HMS, 'quick', ncalls=2, unwind=12, local=True, tzany=True, timeout=900),
           sft('hm_local_dst', ['%H', ':', '%M'], 'quick', ncalls=2, unwind=12, local=True, dst=True, window=14400, timeout=900), sft('h_gmt_n3', ['%H'], 'thorough', ncalls=3, unwind=12, timeout=1700), sft('wdname_h_gmt_n3', P_WN, 'quick', ncalls=3, unwind=14, timeout=1200, window=93600), pop('populate_wdname_gmt', P_WN, 'quick'),
           sft('weekday_gmt', P_WD, 'thorough', ncalls=2, unwind=12, timeout=1700), pop('populate_weekday_gmt', P_WD, 'thorough'),
           sft('l_k_gmt', P_LK, 'thorough', ncalls=2, unwind=12, timeout=1700), pop('populate_l_k_gmt', P_LK, 'thorough'),
           sft('epoch_gmt', P_EP, 'thorough', ncalls=2, unwind=14, timeout=1700), pop('populate_epoch_local', P_EP, 'thorough', local=True),
           sft('i_p_local3', P_12, 'thorough', ncalls=2, unwind=12, local=True, timeout=1700),
           sft('hms_gmt_n3', P_HMS, 'thorough', ncalls=3, unwind=12, timeout=1700)]
BOUNDS = 'quick: %H:%M:%S (GMT and any quarter-hour local offset) and %I:%M %p (GMT), 2 calls, 2-day window; %H:%M local with one DST transition in a 4-hour window; TimestampFormatter constructor on every pattern <= 6 bytes over 8 symbols; thorough: %l/%k, weekday, %s patterns, 3 calls'
OUTSIDE = 'pattern splitting in init (std::map/find/replace: symbolic execution does not finish) - the split parts are given per query; TimestampFormatter::format_timestamp and _write_fractional_seconds (fractional digits: harness h_tsf_format kept unregistered - no verdict in 16 GB), rejection of %X in StringFromTime::init; libfmt digit rendering ({:02} {:2} {:10} = three-spec model); glibc strftime and the real tz database (zone = one fixed offset per run, plus in hm_local_dst ONE +-1 h daylight-saving transition at a quarter-hour instant); dates (%Y %m %d); more than 3 calls'
ASSUMPTIONS = ['libc gmtime_r/localtime_r/timegm/strftime = rt/m_time.c (exact h:m:s, day count, weekday; conversions %H %M %S %I %k %l %p %s %u; one fixed zone offset per run, multiple of 900 s)',
               '_safe_strftime buffer growing replaced by a 40-byte block hook; fmtquill::format_to("{:02}"/"{:2}"/"{:10}") replaced by a hook model',
               'assume/guarantee: format_timestamp queries use the plain-C contract of _populate_pre_formatted_string_and_cached_indexes, and the populate_* queries decide that the real function equals that contract']
MANIFEST = {
 'text': 'Reduced scope (StringFromTime caching + TimestampFormatter constructor). The solver decides on the real StringFromTime::format_timestamp, for every sequence of instants in the window (increasing, repeated, going backwards) and each bounded pattern, that the cached and incrementally patched string equals a fresh rendering of the same instant: hour/minute/second/12-hour/AM-PM/weekday/epoch fields are never stale across second, minute, hour, noon, midnight and quarter-hour recalculation boundaries, in GMT and in a local zone at any quarter-hour offset; and that the real _populate_pre_formatted_string_and_cached_indexes records exactly the right field positions and seconds-of-day (contract used by the first group). and - hm_local_dst - across one daylight-saving transition (+-1 h at any quarter-hour instant of the window: the quarter-hour rebuild of the local-time cache is what makes this hold). tsf_ctor: the real TimestampFormatter constructor splits every short pattern at the one fractional specifier (%Qms/%Qus/%Qns) into the two strftime parts with the configured zone and refuses two different specifiers. Not claimed: pattern splitting inside StringFromTime::init, the fractional digits themselves, rejection of %X, real strftime/tz database.',
 'note': 'Bounds: 2 (quick) / 3 (thorough) calls, 2-day window of ten-digit epochs, 5 patterns. libc time and libfmt digit rendering are models. Trusted: clang IR, translator, CBMC.',
 'technique': 'CBMC/SAT (kissat, sliced formula) over clang IR of the real StringFromTime functions vs a fresh-rendering oracle, symbolic instants and zone offset; assume/guarantee split with IR hooks; native replay',
}
