# C13 — rendered time equals strftime of the instant (cached-string patching part)
def sft(name, pattern, tier, ncalls=3, local=False, timeout=280):
    return Q(name, 'C13_time.cpp', 'h_string_from_time', defines=['PATTERN="%s"' % pattern, 'NCALLS=%d' % ncalls] + (['LOCALTZ'] if local else []),
             zero=[r'^_ZN?K?8fmtquill.*(locale|thousands_sep|decimal_point|format_facet|digit_grouping|write_loc)', r'^_ZNSt6locale', r'^_ZN8fmtquill3v116detail5writeIcNS0_14basic_appenderIcEE[def]'],
             forbid=[r'^_ZN8fmtquill3v116detail(11write_float|12format_float|9dragonbox|14snprintf_float|6bigint|15format_hexfloat|10write_loc|5write.*(float|double|ld|e)E)'],
             models=['m_throw.c', 'm_time.c', 'm_env.c'], libmodels=['m_string.c', 'm_stl.c'], unwind=24, unwindset=['strlen.0:40'], tier=tier, timeout=timeout,
             bounds='pattern "%s", %s, %d calls with any instants (any order, repeats, backwards) in a 2-day window of ten-digit epochs' % (pattern, 'local zone UTC-5 or UTC+5:45' if local else 'GMT', ncalls),
             what='real StringFromTime::init + format_timestamp: the incrementally patched cached string equals a fresh strftime rendering of each instant (no stale hour/minute/second/AM-PM field across second, minute, hour, noon, midnight and recalculation boundaries)')
QUERIES = [sft('hms_gmt', '%H:%M:%S', 'quick'), sft('i_p_gmt', '%I:%M %p', 'quick', ncalls=2)]
BOUNDS = ''
OUTSIDE = ''
