# C17 — removing / re-creating loggers never loses statements nor frees state in use (registry part)
FORBID = [r'get_local_thread_context', r'16PatternFormatter(C2|D2)', r'^_ZN5quill2v94SinkD', r'^_ZNSt16_Sp_counted_baseILN9__gnu_cxx12_Lock_policyE2EE(10_M_release|24_M_release_last_use)']
QUERIES = [
  Q('registry', 'C17_registry.cpp', 'h_registry', forbid=FORBID + [r'^_ZN5quill2v96detail10LoggerBaseD[012]Ev$', r'^_ZN7TLoggerD[12]Ev$'], hooks=[r'^_ZN7TLoggerD0Ev=vh_destroy'], models=['m_throw.c', 'm_env.c'], libmodels=['m_string.c', 'm_stl.c'], cdefs=['VLL_STRBLOCK=64'], unwind=5, unwindset=['strlen.0:40', 'memcmp.0:16', '_ZNSt7__cxx1112basic_stringIcSt11char_traitsIcESaIcEE9_M_assignERKS4_.0:16', '_ZNSt7__cxx1112basic_stringIcSt11char_traitsIcESaIcEE12_M_constructEmc.0:16'], timeout=280,
    bounds='real LoggerManager on names from {a,b,c} (symbolic): create n1, create n2, create n1 again, look-ups, remove one (symbolic which), backend clean-up with a symbolic "queues and buffers empty" answer, re-create the removed name',
    what='create/get idempotent and the registry stays sorted and duplicate-free; a removed logger vanishes from look-ups at once, is destroyed only by the clean-up and only when the backend reports nothing refers to it (otherwise the request stays pending), never a valid logger; the returned names are exactly the destroyed ones; the name can be re-created as a new object'),
]
BOUNDS = 'two loggers, one removal, one clean-up pass'
OUTSIDE = 'the backend side (that _check_frontend_queues_and_cached_transit_events_empty is right, flag order, sink pruning by SinkManager, remove_logger_blocking hand-over, spinlock happens-before under weak memory): backend kernels not under the memory cap / not built - NOT claimed'
ASSUMPTIONS = ['loggers are a minimal LoggerBase subclass with the real LoggerBase constructor; the backend "everything empty" predicate is a symbolic callback']
