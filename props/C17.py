# C17 — removing / re-creating loggers never loses statements nor frees state in use (registry part)
FORBID = [r'get_local_thread_context', r'16PatternFormatter(C2|D2)', r'^_ZN5quill2v94SinkD', r'^_ZNSt16_Sp_counted_baseILN9__gnu_cxx12_Lock_policyE2EE(10_M_release|24_M_release_last_use)']
def reg(i1, i2, i3, tier):
    return Q('registry_%d%d%d' % (i1, i2, i3), 'C17_registry.cpp', 'h_registry', defines=['I1=%d' % i1, 'I2=%d' % i2, 'I3=%d' % i3], forbid=FORBID + [r'^_ZN5quill2v96detail10LoggerBaseD[012]Ev$', r'^_ZN7TLoggerD[12]Ev$'], hooks=[r'^_ZN7TLoggerD0Ev=vh_destroy'], models=['m_throw.c', 'm_env.c'], libmodels=['m_string.c', 'm_stl.c'], cdefs=['VLL_STRBLOCK=64', 'VLL_NEW_HOOK'], unwind=8, unwindset=['strlen.0:40', 'memcmp.0:16', 'vll_memcpy.0:70', 'vll_memmove.0:70', 'vll_memmove.1:70', 'vll_memset.0:70'], timeout=280, tier=tier, byteloops=True,
    bounds='real LoggerManager, names %s/%s/%s (concrete per query): create n1, create n2, create n1 again, look-ups, remove one (symbolic which), backend clean-up with a symbolic "queues and buffers empty" answer, re-create the removed name' % ('abc'[i1], 'abc'[i2], 'abc'[i3]),
    what='create/get idempotent and the registry stays sorted and duplicate-free; a removed logger vanishes from look-ups at once, is destroyed only by the clean-up and only when the backend reports nothing refers to it (otherwise the request stays pending), never a valid logger; the returned names are exactly the destroyed ones; the name can be re-created as a new object')
REG = [reg(0, 1, 2, 'unregistered'), reg(1, 0, 1, 'unregistered')]      # registry harness: symbolic execution does not finish (string lengths stay symbolic), kept unregistered
import importlib.util, os
_spec = importlib.util.spec_from_file_location('c03', os.path.join(os.path.dirname(__file__), 'C03.py')); _m = importlib.util.module_from_spec(_spec); _m.Q = Q; _spec.loader.exec_module(_m)
QUERIES = REG + [q for q in _m.QUERIES if q.name.startswith('K4_all_empty') or q.name.startswith('K1_read_decode')]
BOUNDS = 'K4: 2 contexts x (0..1 queued record, 0..1 buffered event); K1: <= 3 records'
OUTSIDE = 'the registry itself (LoggerManager create/get/remove/cleanup, SinkManager pruning: harness harness/C17_registry.cpp does not finish symbolic execution), _logger_removal_flags hand-over of remove_logger_blocking, sink destruction and file closing, the spinlock under weak memory, CsvWriter: NOT claimed'
ASSUMPTIONS = ['the refresh of the context cache from the registry is a no-op hook (the cache is given)']
MANIFEST = {
 'text': 'Reduced scope (one mechanism of the property): the backend frees removed loggers only while nothing refers to them - decided on the real code as two kernels: K4, _check_frontend_queues_and_cached_transit_events_empty (the predicate _cleanup_invalidated_loggers passes to the registry) is true only if NO queue of any thread holds a record and NO backend ring holds an event; K1, every record decoded from a queue carries its logger pointer into the ring unchanged, so a statement logged before the removal is either still queued or buffered (and blocks the free) or already dispatched. The registry operations themselves (create/get idempotence, removal, re-creation, sink pruning, remove_logger_blocking flags) are NOT claimed: their harness does not finish.',
 'note': 'K4: 2 contexts. Same queries as C03 K1/K4. Trusted: clang IR, translator, CBMC.',
 'technique': 'CBMC/SAT over clang IR of the real backend emptiness predicate and read/decode loop with symbolic queue/ring occupancy; native replay',
}
