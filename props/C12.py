# C12 — sink line equals the pattern with every attribute substituted (multi-line clause only)
FORBID = [r'get_local_thread_context', r'16PatternFormatter(C2|D2|12_set_pattern)', r'18TimestampFormatter', r'^_ZSt11make_sharedIN5quill',
          r'^_ZN(5quill2v9)?(4Sink|6Filter|6detail11SinkManager|6detail13LoggerManager|6detail20ThreadContextManager|6detail10LoggerBase|10LoggerImplI2FOE|6detail13ThreadContext|6detail18TransitEventBuffer|6detail13BackendWorker|14BackendOptions)D[012]Ev$',
          r'^_ZNSt23_Sp_counted_ptr_inplace', r'^_ZNSt15_Sp_counted_ptr']
def ml(n, tier):
    return Q('multiline_len%d' % n, 'C12_lines.cpp', 'h_multiline', defines=['MLEN=%d' % n, 'TEBCAP=2'], cuts=[r'^_ZN5quill2v96detail12TransitEvent(C2|D2|aS)'], forbid=FORBID,
             hooks=[r'BackendWorker20_write_log_statement=vh_write_stmt'],
             models=['m_transit.c', 'm_throw.c', 'm_env.c'], libmodels=['m_string.c', 'm_stl.c'], unwind=24, unwindset=['strlen.0:40'], tier=tier, timeout=280,
             bounds='every message of exactly %d bytes over {a, newline} in a real libfmt memory buffer; add_metadata_to_multi_line_logs symbolic; real _dispatch_transit_event_to_sinks + _process_multi_line_message, _write_log_statement observed through a hook' % n,
             what='on: one _write_log_statement per message line with exactly the sub-view of that line (a final newline opens no extra line); off: one call with at most one trailing newline removed')
def slots(n1, second, tier):
    return Q('attribute_slots_n%d_%d' % (n1, second), 'C12_slots.cpp', 'h_slots', defines=['N1=%d' % n1, 'SECOND_HAS=%s' % ('true' if second else 'false')], byteloops=True,
             hooks=[r'^_ZN5quill2v96detail18TimestampFormatter16format_timestampENSt6chrono8duration=vh_ts_format', r'^_ZN8fmtquill3v1110vformat_toISt20back_insert_iteratorINS0_19basic_memory_bufferIcLm512E=vh_vformat_to'],
             forbid=[r'basic_memory_bufferIcLm512ENS0_6detail9allocatorIcEEE4grow', r'16PatternFormatter(C2|D2|12_set_pattern|27_generate_fmt_format_string)'],
             models=['m_throw.c', 'm_env.c'], libmodels=['m_string.c', 'm_stl.c'], unwind=20, unwindset=['strlen.0:20'], tier=tier, timeout=600,
             bounds='ANY subset of the 16 attributes in use (symbolic mask), reversed slot order, two consecutive statements with different values everywhere; first statement %d named argument(s), second %s' % (n1, 'one' if second else 'none (null pointer: a slot that never held named args)'),
             what='real PatternFormatter::format: after each call the argument slot of every attribute used by the pattern holds this statement\'s own value (time via the timestamp formatter, file/line/function/path/source-location forms from the metadata, level name and code, logger, thread id/name, process id, tags, message, named args rendered "k: v, q: w" and empty when the statement has none), and the libfmt renderer is invoked exactly once')
QUERIES = [slots(2, 0, 'unregistered'), ml(2, 'quick'), ml(4, 'quick'), ml(6, 'thorough')]
BOUNDS = 'messages of 2,4 (quick) / 6 (thorough) bytes over {a, newline}'
OUTSIDE = 'the pattern rewrite (_generate_fmt_format_string, _set_pattern), the slot table, attribute values, libfmt width/alignment rendering, source-location accessors: need a libfmt model and heavy std::string/unordered_map encodings that were not built - NOT claimed'
ASSUMPTIONS = ['BackendWorker built by its real constructor; logger/formatter/event objects laid out directly', '_write_log_statement replaced by a recording hook with the same signature (irpass -r)']
MANIFEST = {
 'text': 'Reduced scope (multi-line clause of C12 only): the solver decides, for every message over {a, newline} up to the bound, that the real dispatch code emits one complete line per message line with exactly the right sub-view when add_metadata_to_multi_line_logs is on, and a single statement with at most one trailing newline removed when it is off. The pattern substitution itself is not claimed.',
 'note': 'Messages <= 4 (quick) / 6 (thorough) bytes. Pattern rewrite, slot table, rendering: outside. Trusted: clang IR, translator, CBMC.',
 'technique': 'CBMC/SAT over clang IR of the real BackendWorker line-splitting code with symbolic message bytes, observed through an IR-level hook; native replay',
}
