# C19 — named args give matching text, ordered key/value pairs, one JSON object per line
H = 'C19_named_args.cpp'
def det(n, tier, timeout=None):
    return Q('detector_len%d' % n, H, 'h_detector', defines=['LEN=%d' % n], unwind=n + 3, tier=tier, timeout=timeout, witness=(n >= 5),
             bounds='every valid fmt template of length exactly %d over the alphabet { } a 1 : space (6^%d strings; validity assumed via an independent grammar state machine)' % (n, n),
             what='MacroMetadata::_contains_named_args(template) == "some replacement field has an identifier id" (escaped braces, positional ids, specs, adjacent fields)')
def strip(n, tier, timeout=600):
    return Q('stripper_len%d' % n, 'C19_stripper.cpp', 'h_stripper', defines=['LEN=%d' % n], byteloops=True,
             hooks=[r'^_ZN8fmtquill3v116formatIJSt17basic_string_viewIcSt11char_traitsIcEERS5_EEENSt7__cxx1112basic_string=vh_fmt_concat'],
             models=['m_throw.c', 'm_env.c'], libmodels=['m_string.c', 'm_stl.c'], unwind=n + 4, cdefs=['VLL_STR_NOGROW'], tier=tier, timeout=timeout,
             bounds='every valid named-argument template of exactly %d bytes over { } a b : . (every field named, <= 3 fields, spec without braces)' % n,
             what='real BackendWorker::_process_named_args_format_message: positional template = the template with exactly the names removed (text, escaped braces and every spec kept); key list = (name, spec) per placeholder in order')
def jsonnl(n, tier):
    return Q('json_newlines_len%d' % n, 'C19_json.cpp', 'h_json_newlines', defines=['TLEN=%d' % n], byteloops=True,
             hooks=[r'^_ZN5quill2v96detail8JsonSinkI5TBaseE21generate_json_message=vh_gen_json', r'^_ZN5quill2v910StreamSink9write_logE=vh_stream_write', r'^_ZN5TBaseC2Ev=vh_tbase_ctor'],
             forbid=[r'^_ZN5quill2v910StreamSinkD[012]Ev$', r'basic_memory_bufferIcLm500ESaIcEE4grow'],
             models=['m_throw.c', 'm_env.c'], libmodels=['m_string.c', 'm_stl.c'], unwind=n + 4, cdefs=['VLL_STR_NOGROW'], tier=tier, timeout=600,
             bounds='every message template of exactly %d bytes over {a, space, newline}' % n,
             what='real detail::JsonSink::write_log: the template handed to the JSON line equals the original with every newline replaced by one space (same length, nothing else touched), the line is generated once and handed down once, closed by "}" and a newline')
QUERIES = [jsonnl(4, 'unregistered'), strip(5, 'unregistered'), strip(7, 'unregistered')] + [det(n, 'quick') for n in (2, 3, 4, 5, 6, 7)] + [det(8, 'thorough', 1700), det(9, 'thorough', 1700)]
BOUNDS = 'templates <= 8 (quick) / 10 (thorough) bytes over a 6-symbol alphabet'
OUTSIDE = 'libfmt rendering of the values, JSON well-formedness for arbitrary values, the stripper and the split loop (need a libfmt model; not built)'
ASSUMPTIONS = ['templates are valid libfmt templates (documented precondition of a log statement); spec text contains no nested braces']
MANIFEST = {
 'text': 'Reduced scope: the solver decides, for EVERY valid libfmt template up to 7 (quick) / 9 (thorough) bytes over a 6-symbol alphabet, that the real compile-time detector MacroMetadata::_contains_named_args agrees with an independent grammar state machine (escaped braces, positional ids, specs, adjacent fields). This is the gate that decides whether a statement gets key/value pairs at all; the solver found and the check now guards the adjacent-placeholder defect.',
 'note': 'Only the detector is decided. The stripper, the split loop and the JSON sinks need a libfmt model (not built): outside the claim, as are libfmt rendering and JSON well-formedness. Trusted: clang IR, translator, CBMC.',
 'technique': 'CBMC/SAT over clang IR of the real detector vs an independent reference on all short templates; native replay',
}
