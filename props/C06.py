# C06 — flush_log() returns only after all earlier statements are written and flushed (caller side only)
FORBID = [r'get_local_thread_context']
def q(name, entry, what, bounds):
    return Q(name, 'C06_flush.cpp', entry, forbid=FORBID, models=['m_throw.c', 'm_env.c'], libmodels=['m_string.c'], cdefs=['VLL_YIELD_HOOK'], unwind=14,
             what=what, bounds=bounds)
QUERIES = [
  q('flush_log_dropping', 'h_flush_log', 'real LoggerImpl::flush_log on a BoundedDropping queue: the Flush request is retried until accepted, enqueued exactly once, not counted as a discarded statement; flush_log returns only after the backend stub consumed everything ahead of the request and set the flag whose address travelled through the queue',
    '64-byte dropping queue, 0..1 earlier 40-byte statement still queued (so the first reservation may fail), both wait styles (sleep_for / yield), fair backend stub (one record per yield)'),
  q('backtrace_requests_dropping', 'h_backtrace_requests', 'real init_backtrace / flush_backtrace: the control request is never discarded on a dropping queue (retried until accepted, exactly one record), flush level stored',
    'same queue; capacity and flush level symbolic'),
]
# backend side of the hand-over: the kernels of C10 that run the real Flush branch and the real per-sink flush loop
import importlib.util, os
_spec = importlib.util.spec_from_file_location('c10', os.path.join(os.path.dirname(__file__), 'C10.py')); _m = importlib.util.module_from_spec(_spec); _m.Q = Q; _spec.loader.exec_module(_m)
QUERIES += [x for x in _m.QUERIES if x.name.startswith('flush_')]
BOUNDS = 'one flush / backtrace request, at most one earlier statement, capacity 64'
OUTSIDE = 'the composition of the backend kernels (statements ahead of the request written before it is processed: K1 order + K3 minimum dispatch, C03/C05); other threads\' statements under the grace period. fflush/fsync reaching the disk is kernel behaviour.'
ASSUMPTIONS = ['backend = fair stub executed at the cut sleep_for/yield: consumes records in order, sets the flag of a Flush request when it reaches it']
MANIFEST = {
 'text': 'Reduced scope (caller side, plus the backend\'s Flush branch as a kernel): on the real _process_lowest_timestamp_transit_event a Flush request flushes every active sink exactly once - even when some sinks throw - before the caller\'s flag is raised, and the request is consumed (queries flush_* shared with C10). Caller side: the solver decides on the real flush_log / init_backtrace / flush_backtrace with a dropping queue that the control request is retried until accepted, enqueued exactly once and never counted as discarded, and that flush_log returns only after the flag travelling through the queue has been set by a backend stub that consumed everything ahead of the request. The backend side (written and flushed before the flag) is not claimed.',
 'note': 'Backend replaced by a fair stub at the sleep/yield scheduling points; capacity 64; one request. Trusted: clang IR, translator, CBMC.',
 'technique': 'CBMC/SAT over clang IR of the real flush_log/log_statement retry and wait loops with a stub backend run at the cut sleep points; native replay',
}
