# C02 — unbounded queue: record stream intact across growth/shrink, retired buffers never touched, capacity cap
H = 'C02_unbounded.cpp'
CUTS = [r'_alloc_alignedE', r'_free_alignedE']
def bmc(init, maxc, steps, tier, paths=False, shrinkw=False, final=False, timeout=None, sc=False, nodes=3, pre=0):
    nm = '%s_i%d_m%d_p%d_s%d%s%s' % ('sc' if sc else 'ra', init, maxc, pre, steps, '_shr' if shrinkw else '', '_dtor' if final else '')
    return Q(nm, H, 'h_unbounded_bmc', defines=['INIT=%d' % init, 'MAXC=%d' % maxc, 'NSTEPS=%d' % steps, 'MAXNODE=%d' % nodes, 'PRE=%d' % pre] + (['FINAL_DELETE'] if final else []) + (['SCMODE'] if sc else []),
             cdefs=(['WITNESS_SHRINK'] if shrinkw else []) + ['VLL_QBLOCK=%d' % (2 * maxc), 'VLL_QPOOL=%d' % nodes, 'VLL_ALIGNED_NEW_HOOK'], cxx=['-fno-inline'], cuts=CUTS, models=['m_queue_alloc.c', 'm_throw.c'],
             unwind=max(steps + pre + 7, 2 * maxc + 2), paths=paths, tier=tier, timeout=timeout,
             vra='sc' if sc else {'MAXLOC': 3 * nodes, 'MAXMSG': steps + pre + 3, 'MAXTHR': 2, 'MAXOBJ': steps + pre + 2 + nodes},
             bounds='initial capacity %d, maximum %d, ' % (init, maxc) + ('%d producer step(s) first, then ' % pre if pre else '') + ('at most %d nodes, ' % nodes) + ('sequentially consistent latest-value atomics, ' if sc else 'release/acquire shim, ') + '%d scheduler steps (producer:' % steps + ' write of symbolic size 1..max+1 with growth as needed, or shrink to any target; consumer: read with node switch/free, optional commit_read)',
             what='record stream across node switches, old node drained before the new one, retired node never accessed (CBMC deallocated-object checks + dead-atomic check + race detector ordering the delete after the producer\'s last access), capacity <= max, oversize => error, growth beyond max => nullptr without allocation, shrink semantics, ReadResult fields; (SC queries) empty() is never true while a committed record is unread, in whichever node it lives, and false only then or while a node switch is pending')
QUERIES = [bmc(2, 8, 5, 'quick', sc=True), bmc(2, 4, 2, 'quick', nodes=2, pre=2, timeout=290), bmc(2, 8, 2, 'quick', sc=True, shrinkw=True, final=True, pre=2), bmc(2, 6, 4, 'quick', sc=True), bmc(2, 12, 5, 'thorough', sc=True, timeout=1700),
           bmc(2, 4, 3, 'thorough', nodes=2, pre=1, timeout=1700), bmc(2, 8, 7, 'thorough', sc=True, timeout=1700), bmc(4, 16, 6, 'thorough', sc=True, timeout=1700), bmc(2, 8, 4, 'thorough', nodes=3, pre=1, timeout=1700)]
BOUNDS = 'initial capacity 2/4, maximum 4/6/8/12/16 (power-of-two and not), 4-7 steps'
OUTSIDE = 'allocation failure, huge pages, capacities near 2^63 (capacity*2 overflow), runs longer than the bound'
ASSUMPTIONS = ['mmap/munmap and pointer alignment in _alloc_aligned/_free_aligned replaced by malloc/free of the requested size', 'QUILL_THROW is a fatal error in this (no-exceptions) build; it is asserted to happen exactly for records larger than the maximum']
MANIFEST = {
 'text': 'Bounded model checking of the real UnboundedSPSCQueue (constructor, prepare_write/_handle_full_queue, shrink, prepare_read/_read_next_queue, finish/commit, Node and BoundedSPSCQueue constructors/destructors) with producer and consumer sequentialised under the release/acquire memory-model shim; record sizes, shrink targets, schedule and stale-load choices are solver variables. In the sequentially consistent queries the consumer-side emptiness predicate empty() is checked at every consumer step against the ghost record stream: never true while a committed record is unread, in whichever node it lives.',
 'note': 'Bounds: concrete (initial,max) capacity pairs, <= 7 steps. Memory model as C01. mmap/munmap modelled by malloc/free. Trusted: clang IR, translator (validated each run), CBMC, kissat.',
 'technique': 'CBMC/SAT over C translated from clang IR of the real unbounded queue + release/acquire shim + CBMC heap checks; native replay',
}
