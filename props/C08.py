# C08 — dropping queue: a statement is delivered intact or reported dropped, never both
FORBID = [r'get_local_thread_context']
QUERIES = [
  Q('drop_seq', 'C08_dropping.cpp', 'h_drop_seq', defines=['NCALLS=3', 'NSTEPS=5'], byteloops=True, forbid=FORBID, models=['m_throw.c'], libmodels=['m_string.c', 'm_env.c'], unwind=14, timeout=280,
    bounds='BoundedDropping queue of 64 bytes at any position; any interleaving of <= 3 real log_statement calls (32-, 40-, 72-byte statements and a 40-byte control event, values symbolic) with backend read steps (5 scheduler steps)',
    what='return false <=> nothing committed; true <=> delivered later complete, in order; the 72-byte statement is always rejected; failure counter == number of discarded ordinary statements (control events not counted)'),
  Q('counter_race', 'C08_dropping.cpp', 'h_counter_race', forbid=FORBID, models=['m_throw.c'], libmodels=['m_string.c', 'm_env.c'], unwind=16,
    vra={'MAXLOC': 1, 'MAXMSG': 14, 'MAXTHR': 2, 'MAXOBJ': 1},
    bounds='6 steps of producer increment_failure_counter / backend get_and_reset_failure_counter (relaxed load + exchange) under the release/acquire shim',
    what='sum of reported counts + residual == number of increments under every interleaving and every stale load'),
  Q('drop_then_cstr', 'C08_dropping.cpp', 'h_drop_then_cstr', forbid=FORBID, models=['m_throw.c'], libmodels=['m_string.c', 'm_env.c'], unwind=14, byteloops=True, timeout=280,
    bounds='64-byte dropping queue: a delivered record, a DISCARDED statement with two symbolic C strings (0..5 bytes), a backend read, then a delivered statement with one symbolic C string',
    what='a discarded statement leaves no trace in the per-thread size cache: the next statement is sized, written and decoded with its own string length and bytes'),
  Q('callsite_return', 'C11_frontend.cpp', 'h_log_arith', forbid=[r'^_ZN8fmtquill', r'^_ZNK8fmtquill', r'get_local_thread_context'], models=['m_throw.c'], libmodels=['m_string.c', 'm_env.c'], unwind=14,
    bounds='one statement of 70 bytes against a 128-byte dropping queue with 0..128 bytes still unread, at any position', what='return value <=> fits; rejected call leaves the queue untouched and counts exactly one failure'),
]
BOUNDS = 'capacity 64/128 bytes, <= 3 calls, <= 6 steps'
OUTSIDE = 'unbounded dropping queue (growth covered by C02; its nullptr-at-max path by C02 queries); the text of the notifier message (libfmt); flush/backtrace/remove retry loops (control requests) are checked with C06/C17'
ASSUMPTIONS = ['"ordinary log statements" = Event::Log: dropped LogWithRuntimeMetadata statements are not counted by the code and not demanded by the check (interpretation recorded in DESIGN.md)', 'logger/context/queue laid out directly']
MANIFEST = {
 'text': 'The solver decides on the real log_statement (BoundedDropping instantiation) and the real failure-counter code: for every interleaving of a bounded sequence of calls of different sizes with backend reads, every call is either committed and later read back complete and in order, or rejected with the queue untouched and counted exactly once; the counter hand-over between producer increments and the backend load/exchange pair loses nothing under the release/acquire model.',
 'note': 'Capacity 64/128, <= 3 calls; notifier text and unbounded dropping growth outside. Trusted: clang IR, translator, CBMC.',
 'technique': 'CBMC/SAT over clang IR of the real log_statement / failure counter with a solver-chosen schedule; release/acquire shim for the counter; native replay',
}
