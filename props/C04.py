# C04 — async-formatted message equals formatting at the call site (codec + sanitiser part); size accounting
FORBID = [r'get_local_thread_context']
QUERIES = [
  Q('codec_arith', 'C11_frontend.cpp', 'h_log_arith', forbid=FORBID, models=['m_throw.c'], libmodels=['m_string.c', 'm_env.c'], unwind=14,
    bounds='(int8,uint16,int32,uint64,double,float,bool,char,enum,void const*) with every value symbolic, through the real log_statement -> queue -> Codec<T>::decode_arg',
    what='bytes reserved == written == consumed; each decoded value equals the original bit for bit (NaN payloads, extremes)'),
  Q('codec_strings', 'C11_frontend.cpp', 'h_log_strings', forbid=FORBID, models=['m_throw.c'], libmodels=['m_string.c', 'm_env.c'], unwind=14, byteloops=True,
    bounds='(char const* possibly null, int, char[4] possibly unterminated, std::string, char const*, std::string_view), all bytes symbolic, lengths 0..5, embedded NUL',
    what='size accounting with the shared size cache; decoded strings equal in length and bytes; decoded views point into the queue (deep copy: originals overwritten before decoding)'),
  Q('sanitize_len3', 'C04_sanitize.cpp', 'h_sanitize', defines=['SLEN=3'], models=['m_throw.c'], libmodels=['m_string.c', 'm_env.c'], unwind=16, byteloops=True, timeout=280,
    bounds='every byte string of length 3 (2^24 strings) through the real sanitize_non_printable_chars with the default BackendOptions::check_printable_char',
    what='output == reference escape (printable and \\n kept, everything else \\xHH upper-case)'),
  Q('argstore_flag', 'C04_argstore.cpp', 'h_argstore_flag', models=['m_throw.c'], libmodels=['m_string.c', 'm_env.c', 'm_stl.c'], unwind=10, byteloops=True, forbid=[r'17_M_realloc_insert', r'14DynamicArgList(4Node|9TypedNodeI.*)D[012]Ev$'],
    bounds='one argument of type char / char const* / std::string_view / fmt string_view (symbolic byte), alone or preceded and/or followed by numeric arguments',
    what='real DynamicFormatArgStore::push_back raises has_string_related_type() for every argument type that can carry a non-printable character - the condition under which the backend runs the sanitiser on the formatted message'),
  Q('deferred_align', 'C04_deferred.cpp', 'h_align', models=['m_throw.c'], libmodels=['m_string.c', 'm_env.c'], unwind=10,
    bounds='any 64-bit address, alignment 1..64 (powers of two)',
    what='real DeferredFormatCodec::align_pointer returns the smallest aligned address >= p (an already aligned address is kept)'),
  Q('deferred_roundtrip', 'C04_deferred.cpp', 'h_deferred', hooks=[r'13align_pointerEPvm=vh_align'], models=['m_throw.c'], libmodels=['m_string.c', 'm_env.c'], unwind=66,
    bounds='a 16-byte, 8-aligned, not trivially copyable type whose last byte is significant, all bytes symbolic; record start at any offset 0..15 of a 64-byte aligned buffer; align_pointer = the contract decided by deferred_align',
    what='real DeferredFormatCodec encode/decode_arg (placement-new path): written == consumed == reserved, no byte outside the reservation is touched, the decoded object equals the original even after the bytes behind the reservation were overwritten'),
  Q('deferred_roundtrip_a16', 'C04_deferred.cpp', 'h_deferred', defines=['ALIGN=16'], hooks=[r'13align_pointerEPvm=vh_align'], models=['m_throw.c'], libmodels=['m_string.c', 'm_env.c'], unwind=66,
    bounds='a 16-byte, 16-aligned, not trivially copyable type whose last byte is significant, all bytes symbolic; record start at any offset 0..31 of a 64-byte aligned buffer; align_pointer = the contract decided by deferred_align',
    what='real DeferredFormatCodec encode/decode_arg (placement-new path): written == consumed == reserved, no byte outside the reservation is touched, the decoded object equals the original even after the bytes behind the reservation were overwritten'),
]
BOUNDS = 'listed instantiations, strings <= 5 bytes; sanitiser strings of 3 bytes; one 16-byte not trivially copyable deferred-format type at every start offset; argument-store flag for the 4 character-carrying argument kinds'
OUTSIDE = 'that libfmt renders equal values to equal text (trusted: deterministic function of template, types and values); std container / optional / pair / tuple / chrono / path codecs, DeferredFormatCodec for other types than the bounded one, DirectFormatCodec, nested containers, wchar_t'
ASSUMPTIONS = ['call-site text == backend text is reduced to: decoded argument values are bit-identical to the originals + identical template + deterministic libfmt']
MANIFEST = {
 'text': 'Codec and sanitiser part only: the solver decides, for the listed argument lists with all values symbolic, that size computation, encoder and decoder of the real Codec<T> agree byte for byte through the real log_statement and queue (reserved == written == consumed, values bit-identical, views into the queue), that the real sanitiser equals a reference escape on every 3-byte string and is not skipped for any argument kind that can carry a non-printable character (argument-store flag, also for a lone char among numbers), and that the deferred-format codec of a not trivially copyable type writes only inside its reservation at every record alignment and decodes to the original object (alignment helper = smallest aligned address, decided on all 64-bit addresses).',
 'note': 'libfmt rendering is trusted, container/user-type codecs outside. Trusted: clang IR, translator, CBMC.',
 'technique': 'CBMC/SAT round-trip (encode -> queue -> decode) over clang IR of the real Codec and log_statement with symbolic values; native replay',
}
