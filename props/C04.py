# C04 — async-formatted message equals formatting at the call site (codec + sanitiser part); size accounting
FORBID = [r'get_local_thread_context']
QUERIES = [
  Q('codec_arith', 'C11_frontend.cpp', 'h_log_arith', forbid=FORBID, models=['m_throw.c'], libmodels=['m_string.c', 'm_env.c'], unwind=14,
    bounds='(int8,uint16,int32,uint64,double,float,bool,char,enum,void const*) with every value symbolic, through the real log_statement -> queue -> Codec<T>::decode_arg',
    what='bytes reserved == written == consumed; each decoded value equals the original bit for bit (NaN payloads, extremes)'),
  Q('codec_strings', 'C11_frontend.cpp', 'h_log_strings', forbid=FORBID, models=['m_throw.c'], libmodels=['m_string.c', 'm_env.c'], unwind=14, byteloops=True,
    bounds='(char const* possibly null, int, char[4] possibly unterminated, std::string, char const*, std::string_view), all bytes symbolic, lengths 0..5, embedded NUL',
    what='size accounting with the shared size cache; decoded strings equal in length and bytes; decoded views point into the queue (deep copy: originals overwritten before decoding)'),
  Q('sanitize_len3', 'C04_sanitize.cpp', 'h_sanitize', defines=['SLEN=3'], models=['m_throw.c'], libmodels=['m_string.c', 'm_env.c'], unwind=16, byteloops=True, timeout=280,
    bounds='every byte string of length 3 (2^24 strings) through the real sanitize_non_printable_chars with the default BackendOptions::check_printable_char',
    what='output == reference escape (printable and \\n kept, everything else \\xHH upper-case)'),
]
BOUNDS = 'listed instantiations, strings <= 5 bytes; sanitiser strings of 3 bytes'
OUTSIDE = 'that libfmt renders equal values to equal text (trusted: deterministic function of template, types and values); std container / optional / pair / tuple / chrono / path codecs, DeferredFormatCodec, DirectFormatCodec, nested containers, wchar_t'
ASSUMPTIONS = ['call-site text == backend text is reduced to: decoded argument values are bit-identical to the originals + identical template + deterministic libfmt']
MANIFEST = {
 'text': 'Codec and sanitiser part only: the solver decides, for the listed argument lists with all values symbolic, that size computation, encoder and decoder of the real Codec<T> agree byte for byte through the real log_statement and queue (reserved == written == consumed, values bit-identical, views into the queue), and that the real sanitiser equals a reference escape on every 3-byte string.',
 'note': 'libfmt rendering is trusted, container/user-type codecs outside. Trusted: clang IR, translator, CBMC.',
 'technique': 'CBMC/SAT round-trip (encode -> queue -> decode) over clang IR of the real Codec and log_statement with symbolic values; native replay',
}
