# C18 — backtrace ring: held back, then replayed most recent N, in order, once
CUTS = [r'^_ZN5quill2v96detail12TransitEvent(C2|D2|aS)', r'^_ZNSt7__cxx1112basic_stringIcSt11char_traitsIcESaIcEE(C2|D2|aS|cv)', r'^_ZNSaIcE(C2|D2)']
MODELS = ['m_transit.c', 'm_string_inert.c', 'm_throw.c']
def bmc(cap, nops, tier, reinit=False):
    return Q('bmc_cap%d_n%d%s' % (cap, nops, '_reinit' if reinit else ''), 'C18_backtrace.cpp', 'h_bt_bmc',
             defines=['CAP=%d' % cap, 'NOPS=%d' % nops] + (['REINIT'] if reinit else []), cxx=['-fno-inline'], cuts=CUTS, models=MODELS,
             unwind=nops + 3, paths=True, tier=tier,
             bounds='capacity %d, every sequence of %d operations (store / flush%s) from the initial state' % (cap, nops, ' / re-init with capacity 1..%d' % (cap + 1) if reinit else ''),
             what='each flush emits exactly the last min(cap, stored-since-previous-flush) events, oldest first, once; witness: a second flush after a wrapped fill')
def ind(cap, sz, tier):
    return Q('ind_cap%d_sz%d' % (cap, sz), 'C18_backtrace.cpp', 'h_bt_ind', defines=['CAP=%d' % cap, 'SZ=%d' % sz], cxx=['-fno-inline'], cuts=CUTS, models=MODELS,
             unwind=cap + 3, paths=True, tier=tier, witness=(sz == cap and cap > 1),
             bounds='capacity %d, size %d; ARBITRARY ring state under INV (size<=cap, index<cap, size<cap => index==0) with symbolic ids and index; one operation of store/process/set_capacity' % (cap, sz),
             what='inductive step: INV re-established, flush emits the logical sequence; covers histories of any length for this capacity')
QUERIES = [bmc(2, 6, 'quick'), bmc(1, 5, 'quick')] + [ind(c, z, 'quick') for c in (1, 2, 3) for z in range(c + 1)] + \
          [bmc(3, 8, 'thorough'), bmc(2, 6, 'thorough', reinit=True)] + [ind(4, z, 'thorough') for z in range(5)]
BOUNDS = 'capacities 1..4; bmc: 5-8 operations from the initial state; ind: one step from any invariant state'
OUTSIDE = 'capacity 0; the backend branches that call the ring (_process_transit_event) are checked separately; text of the events (TransitEvent payload cut to a 56-byte POD)'
ASSUMPTIONS = ['TransitEvent move/ctor/dtor and std::string temporaries replaced by shallow models (rt/m_transit.c, rt/m_string_inert.c)']
MANIFEST = {
 'text': 'Bounded model checking of the real BacktraceStorage (store/process/set_capacity with the real std::vector code): (ind) one step from an arbitrary ring state under a representation invariant with symbolic event ids and index, which covers histories of any length per capacity, plus (bmc) every operation sequence up to the bound from the initial state. Right level: the defect class (stale index after a wrapped flush) needs a multi-cycle history no unit test samples; the solver covers all of them within the bounds.',
 'note': 'Capacities 1..4 only; TransitEvent payload and std::string temporaries replaced by shallow models; backend call sites of the ring not part of this query set; clang IR + own translator (validated differentially each run) + CBMC trusted.',
 'technique': 'CBMC path-wise symbolic execution + SAT over C translated from clang IR of the real class; inductive step + bounded runs; native replay',
}
