# C01 — bounded SPSC queue: exactly-once, in order, intact, race-free; reservation only in released space
H = 'C01_bounded.cpp'
def bmc(pos, cap, steps, tier, wrapwin=False, stale=False, timeout=None):
    nm = 'bmc_%s_cap%d_s%d%s' % ('u8' if pos == 'uint8_t' else 'u64', cap, steps, '_stale' if stale else '')
    return Q(nm, H, 'h_spsc_bmc', defines=['POS_T=' + pos, 'CAP=%d' % cap, 'NSTEPS=%d' % steps] + (['WRAPWIN'] if wrapwin else []),
             cdefs=['WITNESS_STALE'] if stale else [], unwind=max(steps + 6, 2 * cap + 2), tier=tier, timeout=timeout,
             vra={'MAXLOC': 2, 'MAXMSG': steps + 2, 'MAXTHR': 2, 'MAXOBJ': 2 * cap},
             bounds='BoundedSPSCQueueImpl<%s>, capacity %d, %d scheduler steps (each: producer write[+commit]/commit or consumer read[+commit_read]), record sizes 1..cap symbolic, batch threshold 0..cap symbolic, reader lag and producer cache staleness symbolic, start position %s' % (pos, cap, steps, 'in [-4cap,4cap] around the 2^64 wrap' if wrapwin else 'fully symbolic (all 256 values: wrap-around inside the run)'),
             what='record stream (none lost/duplicated/reordered/torn/early), grant only in released space, contiguity, no overlap with unread records, no data race on payload bytes; every load may return any value legal under C++11 release/acquire')
def ctor(pos, tier):
    return Q('ctor_%s' % ('u8' if pos == 'uint8_t' else 'u64'), H, 'h_ctor', defines=['POS_T=' + pos, 'SMALLCAP'], cxx=['-fno-inline'],
             cuts=[r'_alloc_alignedE', r'_free_alignedE'], models=['m_queue_alloc.c'], unwind=130, tier=tier,
             bounds='constructor of BoundedSPSCQueueImpl<%s> for every requested capacity <= 64 and every reader_store_percent <= 100' % pos,
             what='capacity is the next power of two, mask = capacity-1, batch <= capacity')
QUERIES = [bmc('uint8_t', 2, 6, 'quick'), bmc('uint8_t', 4, 5, 'quick'), bmc('uint8_t', 8, 5, 'quick'),
           bmc('size_t', 4, 4, 'quick', wrapwin=True), bmc('size_t', 8, 4, 'quick', wrapwin=True), bmc('uint8_t', 4, 4, 'quick', stale=True),
           ctor('uint8_t', 'quick'), ctor('size_t', 'quick'),
           bmc('uint8_t', 4, 7, 'thorough', timeout=1700), bmc('uint8_t', 2, 8, 'thorough', timeout=1700), bmc('size_t', 4, 6, 'thorough', wrapwin=True, timeout=1700), bmc('uint8_t', 8, 6, 'thorough', timeout=1700)]
BOUNDS = 'capacities 2,4,8; 4-8 scheduler steps; all start positions (u8) / wrap window (u64); queue methods only'
OUTSIDE = 'capacities > 8, runs longer than the step bound, out-of-thin-air executions, seq_cst mixed-access subtleties (none occur: the queue uses only acquire/release/relaxed), QUILL_X86ARCH cache-flush code (not compiled in the default build)'
ASSUMPTIONS = ['queue state constructed directly in a quiescent empty state (reader==writer) with symbolic published-reader lag < batch and symbolic producer cache staleness; constructor checked separately (ctor_* queries, mmap cut to malloc)',
               'payload represented by first byte (length) and last byte (tag) of each record plus interval ghosts',
               'op-level scheduling: each queue operation block has the shape [cross-thread loads]*[cross-thread stores]*, for which op-level interleaving is equivalent to event-level interleaving under the view semantics']
MANIFEST = {
 'text': 'Bounded model checking of the seven real BoundedSPSCQueueImpl methods (both the uint8_t instantiation used by the repo overflow test and the production size_t one) with two threads sequentialised by a solver-chosen scheduler and every atomic access redirected to an operational C++11 release/acquire/relaxed model that lets a load return any legally visible store; payload accesses go through a vector-clock race detector. Start position, record sizes, batch threshold, reader lag and cache staleness are solver variables. Right level: the property quantifies over schedules and weak-memory outcomes that no x86 test run can produce; a solver covers all of them within the bound.',
 'note': 'Bounds: capacity <= 8, <= 8 steps. Memory model = RC11 release/acquire fragment (no OOTA); memory orders are taken from the clang IR of the real code. Trusted: clang IR, translator (validated differentially each run), CBMC, kissat.',
 'technique': 'CBMC/SAT over C translated from clang IR of the real queue methods + operational release/acquire memory-model shim + race detector; native replay',
}
