# C14 — size rotation keeps every statement whole and in order within size/count bounds (decision + accounting only)
H = 'C15_time_rotation.cpp'
def sr(n, tier, timeout=280):
    return Q('size_rotation_n%d' % n, H, 'h_size_rotation', defines=['NSTMT=%d' % n, 'FREQ=2', 'GMTONLY'],
             hooks=[r'^_ZN5quill2v912RotatingSinkINS0_8FileSinkEE13_rotate_filesEm=vh_rotate_files14', r'^_ZN5quill2v910StreamSink9write_logE=vh_base_write'],
             models=['m_throw.c', 'm_time.c', 'm_env.c'], libmodels=['m_string.c', 'm_stl.c'], unwind=8, tier=tier, timeout=timeout,
             bounds='real RotatingSink<FileSink>::write_log, %d statements of any size 1..8192 (also larger than the limit), limit 512..4096, open file already holding 0..limit bytes, hourly time rotation on or off with any next point, each rotation request symbolically granted or refused' % n,
             what='every statement is handed to the file exactly once, whole, after at most one rotation request; a rotation is requested exactly when the time point is due or else the size would exceed the limit; after a granted rotation the statement goes to the fresh file; no file exceeds the limit unless a single statement alone does or rotation was refused; _file_size accounting exact')
QUERIES = [sr(2, 'quick'), sr(3, 'quick'), sr(5, 'thorough', 1700)]
BOUNDS = '<= 3 statements (quick), 5 (thorough)'
OUTSIDE = 'NOT claimed: _rotate_files itself (renames, index/date naming, backup limit, overwrite, deletion), reading the files back in order, restart recovery (_clean_and_recover_files), unrelated files: std::filesystem and real files cannot be encoded within reach'
ASSUMPTIONS = ['_rotate_files replaced by a hook with its two real exits (refuse: nothing changes; succeed: fresh file of size 0); FileSink::write_log replaced by a recording hook']
MANIFEST = {
 'text': 'Reduced scope (rotation decision and size accounting): the solver decides on the real RotatingSink::write_log/_time_rotation/_size_rotation, with statement sizes, limit, initial file size and time points symbolic, that each statement is written whole exactly once after at most one rotation request, that rotation is requested exactly when due, and that no file grows beyond the limit unless a single statement alone does or rotation was legitimately refused. Which files exist afterwards, their names, order, backup limit and restart recovery are file-system behaviour and are not claimed.',
 'note': '_rotate_files and the base write are hooks. Trusted: clang IR, translator, CBMC.',
 'technique': 'CBMC/SAT over clang IR of the real RotatingSink write path with symbolic sizes/limits and IR hooks on the file-system steps; native replay',
}
