# C11 — a steady-state log call neither allocates nor formats on the calling thread
H = 'C11_frontend.cpp'
FORBID = [r'^_ZN8fmtquill', r'^_ZNK8fmtquill', r'get_local_thread_context']
def q(name, entry, tier='quick', defines=(), unwind=14, witness=True, bounds='', what='', timeout=None, byteloops=False):
    return Q(name, H, entry, byteloops=byteloops, defines=list(defines), forbid=FORBID, models=['m_throw.c'], libmodels=['m_string.c', 'm_env.c'], unwind=unwind, tier=tier, witness=witness, timeout=timeout,
             bounds=bounds, what=what)
COMMON = 'thread context already created (steady state), bounded queue of 128 bytes at ANY 64-bit position, timestamp symbolic; operator new/new[]/aligned new and every fmtquill:: function are forbidden (reaching one is a violation)'
QUERIES = [
  q('log_arith', 'h_log_arith', bounds=COMMON + '; arguments int8,uint16,int32,uint64,double,float,bool,char,enum,void const* with all values symbolic; 0..128 bytes of the queue still unread',
    what='real LoggerImpl::log_statement: no allocation, no libfmt call; size reserved == written == consumed; every value round-trips bit for bit (NaN payloads incl.); return value <=> committed; rejected call leaves queue untouched and counts one failure'),
  q('log_strings', 'h_log_strings', unwind=14, byteloops=True, bounds=COMMON + '; arguments (char const* possibly null, int, char[4] possibly unterminated, std::string, char const*, std::string_view), every byte symbolic, lengths 0..5, embedded NULs',
    what='no allocation / no libfmt; size accounting exact with the shared size cache; decoded strings have the same length and bytes, and point INTO the queue (deep copy: originals overwritten before decoding)'),
  q('log_cstr12', 'h_log_cstr12', defines=['NSTR=12'], unwind=16, byteloops=True, witness=False, bounds=COMMON + '; twelve variable-length C-string arguments (the size cache inline capacity)', what='no allocation with 12 cached sizes'),
  Q('log_cstr13_must_allocate', H, 'h_log_cstr12', defines=['NSTR=13'], forbid=FORBID, models=['m_throw.c'], libmodels=['m_string.c', 'm_env.c'], unwind=30, witness=False, byteloops=True, expect='must_fail',
    bounds='thirteen C-string arguments: one more than the size cache inline capacity', what='LIVENESS WITNESS of the allocation assertion: this query must FAIL (the 13th cached size allocates) - it shows the no-allocation assertion can fire'),
  q('log_containers', 'h_log_containers', unwind=24, byteloops=True, timeout=280, bounds=COMMON + '; arguments vector<std::string> (a 19-char heap string and a short one), vector<int>, optional<int>, pair<int,std::string> built beforehand',
    what='no allocation / no libfmt while encoding standard containers of strings (elements are not copied); reserved size == written'),
  Q('log_map', H, 'h_log_map', forbid=FORBID, models=['m_throw.c'], libmodels=['m_string.c', 'm_env.c', 'm_stl.c'], unwind=4, unwindset=['vll_memcpy.0:24', 'vll_memset.0:24', 'vll_memmove.0:24', 'vll_memmove.1:24', 'memchr.0:24', 'strlen.0:24', '_ZN5quill2v96detail13InlinedVectorIjLm12EEC2Ev.0:14', 'h_log_map.0:24', 'h_log_map.1:24', 'h_log_map.2:24', 'h_log_map.3:24', 'h_log_map.4:24', '_ZNSt7__cxx1112basic_stringIcSt11char_traitsIcESaIcEE9_M_mutateEmmPKcm.0:24', '_ZNSt7__cxx1112basic_stringIcSt11char_traitsIcESaIcEE9_M_mutateEmmPKcm.1:24', '_ZNSt7__cxx1112basic_stringIcSt11char_traitsIcESaIcEE9_M_mutateEmmPKcm.2:24', '_ZNSt7__cxx1112basic_stringIcSt11char_traitsIcESaIcEE9_M_assignERKS4_.0:24', 'memcmp.0:24'], byteloops=True, timeout=280, witness=False,
    bounds=COMMON + '; argument std::map<std::string,std::string> with one element (17-char key, 19-char value, bytes symbolic) built beforehand',
    what='no allocation / no libfmt while encoding a map of strings; reserved size == written'),
  q('log_macros', 'h_log_macros', bounds=COMMON + '; LOG_INFO / LOG_DYNAMIC (any of 9 levels) / LOGV_ macro families expanded for real with an int argument',
    what='no allocation / no libfmt through the real macros; dynamic level encoded last and decoded equal'),
]
BOUNDS = 'listed instantiations only; strings <= 5 bytes'
OUTSIDE = 'first call of a thread (context creation), preallocate(), unbounded-queue growth, std codecs other than vector/optional/pair/map (set, tuple, chrono, ...), direct-format types, filesystem paths; allocation inside user copy constructors'
ASSUMPTIONS = ['logger, thread context and queue laid out directly in their steady state (constructors are environment)', 'user clock returning a symbolic instant']
MANIFEST = {
 'text': 'The solver shows, for the listed argument instantiations with all values/bytes/lengths/queue positions symbolic, that operator new (all variants) and every libfmt entry point are UNREACHABLE from the real LoggerImpl::log_statement on the steady-state path, by giving those functions assert(false) bodies; the 13-C-string variant is the liveness witness of the allocation assertion. Thread identity of formatting is structural: the only path to a formatter is the decoder pointer stored in the record.',
 'note': 'Listed instantiations only (one harness per argument list); queue capacity 128; strings <= 5 bytes. Trusted: clang IR, translator, CBMC.',
 'technique': 'CBMC/SAT reachability over clang IR of the real log_statement/Codec with forbidden allocator and libfmt bodies; native replay',
}
