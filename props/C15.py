# C15 — time rotation separates statements at the configured daily/hourly/minute points
H = 'C15_time_rotation.cpp'
FORBID = [r'D[012]Ev$']
FN = {1: 'daily', 2: 'hourly', 3: 'minutely'}
def tr(freq, gmt, n, tier, aligned=False, timeout=280, tzset=False):
    return Q('rot_%s_%s_n%d%s' % (FN[freq], 'gmt' if gmt else ('local3' if tzset else 'local'), n, '_aligned' if aligned else ''), H, 'h_time_rotation',
             defines=['FREQ=%d' % freq, 'NSTMT=%d' % n] + (['GMTONLY'] if gmt else ['LOCALONLY']) + (['TZSET'] if tzset else []) + (['ALIGNED_SCHEDULE'] if aligned else []),
             hooks=[r'^_ZN5quill2v912RotatingSinkINS0_8FileSinkEE13_rotate_filesEm=vh_rotate_files'], models=['m_throw.c', 'm_time.c', 'm_env.c'], libmodels=['m_string.c', 'm_stl.c'],
             unwind=8, tier=tier, timeout=timeout,
             bounds='%s rotation%s, interval 1..3, %s; start instant any nanosecond of a 4-day window; %d statement(s) with non-decreasing timestamps and gaps of 0..3 periods each' % (FN[freq], ' at any HH:MM' if freq == 1 else '', 'GMT' if gmt else ('a local zone at UTC-5 / UTC+5:30 / UTC+5:45' if tzset else 'a local zone at any quarter-hour offset -14h..+14h'), n),
             what='real _calculate_initial_rotation_tp == independent oracle (next minute/hour boundary or next HH:MM in the sink zone, strictly later); real _time_rotation rotates exactly when ts >= next point, names the new file after that statement, and sets the next point' + (' on the configured grid: first point + k periods, skipping empty periods'))
QUERIES = [tr(2, True, 2, 'quick'), tr(2, False, 1, 'quick', tzset=True), tr(2, True, 1, 'quick'), tr(3, True, 1, 'thorough', timeout=1700), tr(1, True, 1, 'thorough', timeout=1700), tr(1, False, 1, 'thorough', tzset=True, timeout=1700),
           tr(2, False, 1, 'thorough', timeout=1700), tr(1, False, 1, 'unregistered', timeout=1700),   # daily/minutely with ANY quarter-hour offset: no verdict in 1700 s
           tr(3, False, 1, 'unregistered', timeout=1700), tr(3, False, 1, 'thorough', tzset=True, timeout=1700), tr(1, True, 2, 'thorough', timeout=1700), tr(3, True, 2, 'thorough', timeout=1700)]
BOUNDS = 'quick: hourly rotation (GMT and three local offsets), <= 2 statements; thorough: also daily and minutely (GMT and three local offsets), hourly at any quarter-hour offset'
OUTSIDE = 'file naming strings, renames, backup limit and the composition with size rotation (file system and std::filesystem::path: not encoded); DST transitions inside a run; the tz database'
ASSUMPTIONS = ['libc gmtime_r/timegm/localtime_r/mktime = rt/m_time.c (exact h:m:s + day count; one fixed zone offset per run, multiple of 900 s)', '_rotate_files replaced by a recording hook']
MANIFEST = {
 'text': 'The solver decides on the real rotation-time code (initial point computation, rotation decision, next-point update), with configuration, zone offset, start instant and statement timestamps symbolic, that it agrees with an independent schedule oracle: first point = next minute/hour boundary or next HH:MM in the sink zone; a statement at or after the next configured point always rotates first (and only then); the schedule stays on the configured points after late statements and gaps of several periods. File naming, renames and the composition with size rotation are not claimed.',
 'note': 'libc broken-down time replaced by an exact h:m:s + day-count model with one fixed zone offset per run (no DST transition inside a run); <= 2 statements per query (quick), 4-day window. Trusted: clang IR, translator, CBMC.',
 'technique': 'CBMC/SAT over clang IR of the real RotatingSink time-rotation functions vs an independent schedule oracle, symbolic instants and configuration; IR hook on the file-system step; native replay',
}
