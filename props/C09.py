# C09 — a blocked log call resumes once the backend made room; no stall on an empty queue
H = 'C01_bounded.cpp'
def drained(pos, cap, tier, wrapwin=False):
    return Q('drained_%s_cap%d' % ('u8' if pos == 'uint8_t' else 'u64', cap), H, 'h_drained',
             defines=['POS_T=' + pos, 'CAP=%d' % cap, 'NREC=2'] + (['WRAPWIN'] if wrapwin else []), unwind=max(8, cap + 2), tier=tier,
             bounds='BoundedSPSCQueueImpl<%s> capacity %d; ARBITRARY drained state (position %s, batch threshold 0..cap, published-reader lag < batch, producer cache staleness) + up to 2 more records written and consumed with the backend commit policy + idle poll; then a request of any size 1..cap' % (pos, cap, 'window around 2^64 wrap' if wrapwin else 'all 256 values'),
             what='inductive: drained-state invariant re-established; prepare_write(n) != nullptr for every n <= capacity on the drained queue')
QUERIES = [drained('uint8_t', 4, 'quick'), drained('uint8_t', 16, 'quick'), drained('size_t', 8, 'quick', wrapwin=True),
           drained('uint8_t', 64, 'thorough'), drained('size_t', 16, 'thorough', wrapwin=True)]
BOUNDS = 'capacities 4..64; one inductive step (<=2 records) from an arbitrary drained state'
OUTSIDE = 'latest-value memory semantics (liveness premise: publications eventually become visible); unbounded queue at max capacity and the log_statement retry loop are separate queries'
ASSUMPTIONS = ['drained-state invariant: reader == writer, published reader position lags by < batch (re-established by the harness, so it is inductive)']
MANIFEST = {
 'text': 'Liveness turned into safety at quiescent states and decided by the solver: from an arbitrary drained state of the real bounded queue (all positions, thresholds and lags symbolic; invariant re-established = inductive, so any history is covered) a reservation of any size up to the capacity must be granted. Right level: the stall needs a specific relation between consumed bytes, batch threshold and request size that tests never hit.',
 'note': 'Latest-value (SC) semantics for the liveness premise; capacities <= 64; backend read policy modelled by the harness loop (finish_read per record, one commit_read per batch, idle poll). Trusted: clang IR, translator, CBMC.',
 'technique': 'CBMC/SAT, one inductive step from a symbolic drained state of the real queue code; native replay',
}
