# C20 — exited threads' queues are drained, then reclaimed; shrinking loses nothing
H = 'C20_contexts.cpp'
QUERIES = [
  Q('counter_add', H, 'h_counter_add', unwind=4, models=['m_throw.c'],
    bounds='N = 0..65534 exited-but-unreclaimed contexts (symbolic), one more thread exit through the real add_invalid_thread_context',
    what='inductive step on the clean-up gate: has_invalid_thread_context() <=> pending != 0 (the atomic counter width is inside the state space)'),
  Q('counter_remove', H, 'h_counter_remove', unwind=4, models=['m_throw.c'], paths=True,
    bounds='N = 1..65535 pending, one real remove_shared_invalidated_thread_context on a registry holding that context',
    what='gate stays open iff contexts remain; registry entry erased'),
  Q('counter_race', H, 'h_counter_race', unwind=16, models=['m_throw.c'], zero=[r'8Spinlock(4lock|6unlock)Ev', r'^_ZNSt6vectorISt10shared_ptrIN5quill2v96detail13ThreadContextEESaIS5_EE8_M_eraseE'], forbid=[r'^_ZNSt16_Sp_counted_baseILN9__gnu_cxx12_Lock_policyE2EE24_M_release_last_use'], vra={'MAXLOC': 4, 'MAXMSG': 14, 'MAXTHR': 2, 'MAXOBJ': 1}, timeout=280,
    bounds='4 scheduler steps of thread exit (add_invalid_thread_context) / backend reclaim (real remove_shared_invalidated_thread_context; its spinlock is stubbed: only the backend touches the registry here) under the release/acquire shim, two exited contexts registered initially',
    what='the counter equals the number of pending contexts under every interleaving and every legally stale non-RMW load (an update implemented as load+store instead of a read-modify-write loses increments)'),
]
# K6: the real BackendWorker::_cleanup_invalidated_thread_contexts (query defined in C03.py, harness/C03_k3.cpp)
import importlib.util as _iu, os as _os
_s3 = _iu.spec_from_file_location('c03', _os.path.join(_os.path.dirname(__file__), 'C03.py')); _m3 = _iu.module_from_spec(_s3); _m3.Q = Q; _s3.loader.exec_module(_m3)
QUERIES += [q for q in _m3.QUERIES if q.name.startswith('K6_cleanup') or q.name.startswith('K7_cache') or q.name.startswith('K2_teb_life')]
BOUNDS = 'up to 65535 pending exited threads; single step each; backend ring life cycle (grow, drain, shrink, refill) for requested capacities 3, 5, 6 (quick) / 8 (thorough)'
OUTSIDE = 'thread-local destructor timing (OS/runtime)'
ASSUMPTIONS = ['counter pre-state = what N real fetch_add(1) leave in the atomic (its own arithmetic), SC atomics (single RMW location)']
MANIFEST = {
 'text': 'Solver-decided inductive steps over the real ThreadContextManager counter that gates the backend clean-up, with the number of pending exited threads symbolic up to 65535 so that any counter-width wrap is inside the explored state space; the counter under exit/reclaim interleavings with the release/acquire shim; and K6, the real BackendWorker::_cleanup_invalidated_thread_contexts hands a context back for reclamation iff its thread exited and both its queue and its backend ring are empty - never with buffered statements - all such contexts in the same call, and K7, the real cache refresh caches every registered context (also an exited, drained one), so none is retained for ever; K2 life cycle, the backend ring shrinks back to its starting capacity on request without losing or reordering anything, for requested capacities that are not powers of two; the others staying cached (registry calls are hooks).',
 'note': 'Kernels only (counter gate, registry removal, queue shrink via C02 queries); end-to-end thread exit/TLS destruction is OS behaviour and outside. Trusted: clang IR, translator, CBMC.',
 'technique': 'CBMC/SAT inductive step over the real counter/registry code with symbolic 16-bit pending count; native replay',
}
