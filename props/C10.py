# C10 (reduced) — a statement that fails / a sink that throws disturbs nothing else: the real catch blocks
DISPATCH = r'^_ZN5quill2v96detail13BackendWorker32_dispatch_transit_event_to_sinksE=vh_dispatch'
def ev(n, tier, timeout=280):
    return Q('event_catch_n%d' % n, 'C10_exc.cpp', 'h_event', defines=['NCTX=1', 'NEVT=%d' % n, 'TEBCAP=%d' % (2 if n <= 2 else 4)], exc=True, cuts=TE_CUTS, forbid=K3F + FMTF,
             hooks=[DISPATCH, PF], models=['m_transit.c', 'm_throw.c', 'm_env.c'], libmodels=['m_string.c', 'm_stl.c', 'm_eh.c'], cdefs=['VLL_STRBLOCK=160'],
             unwind=24, unwindset=['strlen.0:140'], tier=tier, timeout=timeout,
             bounds='%d buffered Log events of one thread; each dispatch throws nothing / a std::exception-derived error / a non-std object (symbolic, every combination)' % n,
             what='real _process_lowest_timestamp_transit_event + _process_transit_event with their real catch blocks: nothing escapes, the failed event is consumed exactly once (never re-read), the error notifier is called exactly once per failure, later events are still dispatched in order')
TE_CUTS = [r'^_ZN5quill2v96detail12TransitEvent(C2|D2|aS)']
K3F = [r'get_local_thread_context', r'16PatternFormatter(C2|D2|12_set_pattern)', r'18TimestampFormatter', r'^_ZSt11make_sharedIN5quill', r'16BacktraceStorage', r'TransitEvent7copy_to',
       r'^_ZN(5quill2v9)?(4Sink|6Filter|6detail11SinkManager|6detail13LoggerManager|6detail20ThreadContextManager|6detail10LoggerBase|10LoggerImplI2FOE|6detail13ThreadContext|6detail18TransitEventBuffer|6detail13BackendWorker|14BackendOptions)D[012]Ev$',
       r'^_ZNSt23_Sp_counted_ptr_inplace', r'^_ZNSt15_Sp_counted_ptr', r'_cleanup_invalidated_thread_contexts', r'_flush_and_run_active_sinks']
FMTF = [r'^_ZN8fmtquill3v116detail(11write_float|12format_float|9dragonbox|14snprintf_float|6bigint|15format_hexfloat|10write_loc|5write.*(float|double|ld|e)E)', r'^_ZN8fmtquill3v11(6detail)?7vformat', r'^_ZN8fmtquill3v116detail10vformat_to']
C12F = [r'get_local_thread_context', r'16PatternFormatter(C2|D2|12_set_pattern)', r'18TimestampFormatter', r'^_ZSt11make_sharedIN5quill', r'16BacktraceStorage', r'TransitEvent7copy_to',
        r'^_ZN(5quill2v9)?(4Sink|6Filter|6detail11SinkManager|6detail13LoggerManager|6detail20ThreadContextManager|6detail10LoggerBase|10LoggerImplI2FOE|6detail13ThreadContext|6detail18TransitEventBuffer|6detail13BackendWorker|14BackendOptions)D[012]Ev$',
        r'^_ZNSt23_Sp_counted_ptr_inplace', r'^_ZNSt15_Sp_counted_ptr', r'_cleanup_invalidated_thread_contexts']
PF = r'16PatternFormatter6formatEm=vh_pf_format'
FEL = r'^_ZNK5quill2v96detail13LoggerManager15for_each_loggerIZNS1_13BackendWorker27_flush_and_run_active_sinks.*=vh_for_each_logger_flush'
def sinks(n, ns, tier, timeout=280):
    return Q('sink_throw_e%d_s%d' % (n, ns), 'C10_exc.cpp', 'h_sinks', defines=['NCTX=1', 'NEVT=%d' % n, 'NSINK=%d' % ns, 'TEBCAP=2'], exc=True, cuts=TE_CUTS, forbid=K3F + FMTF + [r'8Spinlock4lockEv$'],
             hooks=[DISPATCH, PF], models=['m_transit.c', 'm_throw.c', 'm_env.c'], libmodels=['m_string.c', 'm_stl.c', 'm_eh.c'], cdefs=['VLL_STRBLOCK=160'],
             unwind=24, unwindset=['strlen.0:140'], tier=tier, timeout=timeout,
             bounds='%d Log events, logger with %d recording sinks; every write_log call throws nothing / a std::exception-derived error / a non-std object (symbolic, every combination); formatter lookup of _dispatch_transit_event_to_sinks skipped (hook enters the real _write_log_statement), PatternFormatter::format = fixed line' % (n, ns),
             what='real _process_lowest_timestamp_transit_event -> _process_transit_event -> _write_log_statement -> virtual write_log: the statement reaches every sink before the first thrower exactly once, is missing at most from the thrower and the sinks after it, one report per failed statement, event consumed, the next statement is delivered normally and in order')
def flush(ns, tier, timeout=280):
    return Q('flush_throw_s%d' % ns, 'C10_exc.cpp', 'h_flush', defines=['NCTX=1', 'NEVT=2', 'NSINK=%d' % ns, 'TEBCAP=2'], exc=True, cuts=TE_CUTS, forbid=C12F + FMTF,
             hooks=[DISPATCH, FEL], models=['m_transit.c', 'm_throw.c', 'm_env.c'], libmodels=['m_string.c', 'm_stl.c', 'm_eh.c'],
             unwind=24, unwindset=['strlen.0:40'], tier=tier, timeout=timeout,
             bounds='%d active sinks; each flush_sink throws nothing / a std::exception-derived error / a non-std object (symbolic); run_periodic_tasks on or off; the registry walk that collects the sinks is a hook' % ns,
             what='real _flush_and_run_active_sinks: nothing escapes; every sink is flushed exactly once whatever the other sinks did; periodic tasks still run for every sink; one report per failure; the cache is cleared')
CLN = r'^_ZN5quill2v96detail13BackendWorker36_cleanup_invalidated_thread_contextsEv=vh_cleanup_contexts'
def flushev(ns, tier, timeout=280):
    return Q('flush_event_throw_s%d' % ns, 'C10_exc.cpp', 'h_flush_event', defines=['NCTX=1', 'NEVT=2', 'NSINK=%d' % ns, 'TEBCAP=2'], exc=True, cuts=TE_CUTS, forbid=[x for x in C12F if 'cleanup' not in x] + FMTF,
             hooks=[DISPATCH, PF, FEL, CLN], models=['m_transit.c', 'm_throw.c', 'm_env.c'], libmodels=['m_string.c', 'm_stl.c', 'm_eh.c'], cdefs=['VLL_STRBLOCK=160'],
             unwind=24, unwindset=['strlen.0:140'], tier=tier, timeout=timeout,
             bounds='one Flush request, %d sinks whose flush_sink throws nothing / std error / non-std object (symbolic)' % ns,
             what='real _process_lowest_timestamp_transit_event -> Flush branch -> _flush_and_run_active_sinks: nothing escapes, every sink flushed once, failures reported, the event is consumed and the caller\'s flush flag is raised (flush_log returns)')
VF = r'^_ZN8fmtquill3v1110vformat_toISt20back_insert_iteratorINS0_19basic_memory_bufferIcLm88E.*=vh_vformat_to'
F3 = r'^_ZN8fmtquill3v116formatIJPKcS3_S3_EEE=vh_format3'
F2 = r'?^_ZN8fmtquill3v116formatIJPKcS3_EEE=vh_format2'
def fmt(tier, timeout=280):
    return Q('format_throw', 'C10_exc.cpp', 'h_format', defines=['NCTX=1', 'NEVT=2', 'NSINK=2', 'TEBCAP=2'], exc=True, cuts=TE_CUTS, forbid=[x for x in C12F if 'cleanup' not in x] + [FMTF[0], r'^_ZN8fmtquill3v1119basic_memory_bufferIc.*4growE'], byteloops=True,
             hooks=[DISPATCH, PF, FEL, CLN, VF, F3, F2, '?' + SPL], models=['m_transit.c', 'm_throw.c', 'm_env.c'], libmodels=['m_string.c', 'm_stl.c', 'm_eh.c'], cdefs=['VLL_STRBLOCK=160'],
             unwind=24, unwindset=['strlen.0:140'], tier=tier, timeout=timeout,
             bounds='one statement whose rendering (libfmt vformat_to, a hook) succeeds / throws a std::exception-derived error / throws a non-std object; the error text (fmtquill::format) is a hook',
             what='real _populate_formatted_log_message: nothing escapes (so the record is always marked read), stale buffer content is replaced by the error text, the failure is reported exactly once; success leaves the rendering untouched and reports nothing')
F1 = r'?^_ZN8fmtquill3v116formatIJRmEEE=vh_format1'
SPL = r'^_ZN5quill2v96detail13BackendWorker27_format_and_split_argumentsE.*=vh_split'
def fmtn(tier, timeout=280):
    return Q('format_named_throw', 'C10_exc.cpp', 'h_format_named', defines=['NCTX=1', 'NEVT=2', 'NSINK=2', 'TEBCAP=2'], exc=True, cuts=TE_CUTS, forbid=[x for x in C12F if 'cleanup' not in x] + [FMTF[0], r'^_ZN8fmtquill3v1119basic_memory_bufferIc.*4growE'], byteloops=True,
             hooks=[DISPATCH, PF, FEL, CLN, VF, F3, F2, SPL, F1], models=['m_transit.c', 'm_throw.c', 'm_env.c'], libmodels=['m_string.c', 'm_stl.c', 'm_eh.c'], cdefs=['VLL_STRBLOCK=160'],
             unwind=24, unwindset=['strlen.0:140'], tier=tier, timeout=timeout,
             bounds='one statement with named arguments whose per-argument rendering (_format_and_split_arguments, a hook) succeeds / throws a std::exception-derived error / throws a non-std object',
             what='real _populate_formatted_named_args: nothing escapes whatever the rendering throws (so the record is always marked read)')
def btf(tier, timeout=280):
    return Q('backtrace_flush_throw', 'C10_exc.cpp', 'h_backtrace_flush', defines=['NCTX=1', 'NEVT=2', 'NSINK=2', 'TEBCAP=2'], exc=True, cuts=TE_CUTS, forbid=[x for x in K3F if 'BacktraceStorage' not in x] + FMTF,
             hooks=[DISPATCH, PF], models=['m_transit.c', 'm_throw.c', 'm_env.c'], libmodels=['m_string.c', 'm_stl.c', 'm_eh.c'], cdefs=['VLL_STRBLOCK=160'], byteloops=True,
             unwind=24, unwindset=['strlen.0:140', 'vll_memcpy.0:70', 'vll_memmove.0:70', 'vll_memmove.1:70'], tier=tier, timeout=timeout,
             bounds='logger with 2 stored backtrace statements and flush level = the statements\' level; 2 ordinary statements; the dispatch of each stored statement throws nothing / std error / non-std object (symbolic)',
             what='real _process_transit_event -> BacktraceStorage::process -> per-statement dispatch: each stored statement is handed out exactly once (not again at the next flush, not skipped because a neighbour failed), each failure reported once, nothing escapes')
QUERIES = [ev(2, 'quick'), btf('quick'), fmt('quick'), fmtn('quick'), flushev(2, 'quick'), sinks(2, 2, 'quick'), flush(2, 'quick'), ev(3, 'thorough', 1700), sinks(1, 2, 'thorough', 1700), sinks(2, 1, 'thorough', 1700)]
BOUNDS = 'quick: 2 events x 4 failure kinds, 2 events x 2 throwing sinks, 2 sinks throwing on flush, one Flush request, one unformattable statement; thorough: 3 events, other event/sink counts'
OUTSIDE = 'the read/decode loop around _populate_formatted_log_message (K1: out of memory) and the poll loop with its outer catch-all; libfmt itself (which run-time format errors it raises); user codecs; exceptions thrown while another is being handled; catch-by-value copies'
ASSUMPTIONS = ['C++ exceptions = pending-exception model of the translator (flag + object + typeinfo; invoke/landingpad/resume/__cxa_throw/__cxa_begin_catch; type matching over the typeinfo chain), validated per run against the real C++ runtime on 60 random native runs',
               'per-sink dispatch / vformat_to / fmtquill::format / registry walk replaced by IR hooks where stated per query', 'TransitEvent payload = shallow model (rt/m_transit.c)']
MANIFEST = {
 'text': 'Reduced scope. The solver decides, on the real catch blocks of the backend with exceptions encoded by a pending-exception model, for every combination of failing calls within the bounds: (1) _process_lowest_timestamp_transit_event/_process_transit_event: whatever the dispatch of a statement throws (std::exception-derived, a non-std object, or the QuillError of a LOG_BACKTRACE without init_backtrace), nothing escapes, the event is consumed exactly once (never re-read), the error notifier is called exactly once, and later statements are dispatched normally and in order; (2) with throwing write_log on real virtual sinks under the real per-sink loop: the statement reaches every sink before the first thrower exactly once and is missing at most from the thrower and the sinks after it; (3) _flush_and_run_active_sinks: every sink is flushed once whatever the others throw, periodic tasks still run; a Flush request still raises the caller\'s flag (flush_log returns); (4) _populate_formatted_log_message: nothing escapes when rendering throws anything, the error text replaces the message, one report. Not claimed: the read loop and poll loop around these kernels, libfmt\'s own error detection.',
 'note': 'Bounds: <= 3 events, <= 2 sinks, every fault combination symbolic. Trusted: clang IR, translator incl. its exception model (differentially validated against the real C++ runtime each run), CBMC.',
 'technique': 'CBMC/SAT over clang IR (exceptions enabled) of the real BackendWorker catch blocks, C++ exceptions lowered to a pending-exception encoding by the IR->C translator, symbolic fault choices; IR hooks on dispatch/libfmt; native replay with real exceptions',
}
