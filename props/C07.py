# C07 — stopping, exiting or dying by a handled signal loses no completed statement (signal-handler decision logic only)
QUERIES = [
  Q('on_signal_effects', 'C07_signal.cpp', 'h_on_signal', forbid=[r'get_local_thread_context'],
    hooks=[r'^_ZN5quill2v96detail20SignalHandlerContext10get_loggerEv=vh_get_logger', r'^_ZN5quill2v910LoggerImplI2FOE13log_statementILb0ELb0EJRKPKcRiEEE=vh_log_stmt', r'^_ZN5quill2v910LoggerImplI2FOE9flush_logEj=vh_flush_log'],
    models=['m_throw.c', 'm_signal.c', 'm_env.c'], libmodels=['m_string.c', 'm_stl.c'], unwind=14, unwindset=['strlen.0:40'],
    bounds='one entry of the real detail::on_signal<FrontendOptions>: signal in {TERM,INT,ABRT,FPE,ILL,SEGV}; caller = backend thread / another thread / backend not started; logger available or not; should_reraise on/off; any timeout; first entry or a second concurrent entry',
    what='effect sequence: alarm armed with the configured timeout; on a non-backend thread with a logger the notice(s) are logged and flush_log(0) completes BEFORE exit(EXIT_SUCCESS) (INT/TERM) or before signal(SIG_DFL)+raise(original signal) (others, when re-raise is on); no logging from the backend thread itself; a second concurrent entry parks without any effect'),
  Q('on_alarm_watchdog', 'C07_signal.cpp', 'h_on_alarm', forbid=[r'get_local_thread_context'], models=['m_throw.c', 'm_signal.c', 'm_env.c'], libmodels=['m_string.c', 'm_stl.c'], unwind=14,
    bounds='real detail::on_alarm with the recorded original signal in {none, TERM, INT, ABRT, FPE, ILL, SEGV}',
    what='the watchdog restores the default disposition of and re-raises the ORIGINAL signal (SIGALRM itself when it came first); it never exits successfully'),
]
# ---- the real _exit() drain loop with the kernels replaced by their contracts (harness/C07_exit.cpp)
BW = r'^_ZN5quill2v96detail13BackendWorker'
SK_HOOKS = [BW + r'54_check_frontend_queues_and_cached_transit_events_emptyEv=vh_all_empty', BW + r'45_populate_transit_events_from_frontend_queuesEv=vh_populate',
            '?' + BW + r'62has_pending_events_for_caching_when_transit_event_buffer_emptyEv=vh_has_pending', BW + r'39_process_lowest_timestamp_transit_eventEv=vh_process_lowest',
            BW + r'22_check_failure_counterE.*=vh_check_counter', BW + r'27_flush_and_run_active_sinksE.*=vh_final_flush',
            BW + r'36_cleanup_invalidated_thread_contextsEv=vh_cleanup_contexts', BW + r'28_cleanup_invalidated_loggersEv=vh_cleanup_loggers',
            '?' + BW + r'36_update_active_thread_contexts_cacheEv=vh_update_cache']
def skel(name, entry, nc, nr, hard, tier, timeout=280, stalls=2):
    return Q('%s_c%d_r%d_h%d' % (name, nc, nr, hard), 'C07_exit.cpp', entry, defines=['NC=%d' % nc, 'NR=%d' % nr, 'HARD=%d' % hard, 'STALLS=%d' % stalls, 'NCTX=2', 'TEBCAP=2'],
             cuts=[r'^_ZN5quill2v96detail12TransitEvent(C2|D2|aS)'], hooks=SK_HOOKS, models=['m_transit.c', 'm_throw.c', 'm_env.c'], libmodels=['m_string.c', 'm_stl.c'],
             unwind=12, tier=tier, timeout=timeout,
             bounds='%d thread contexts x <= %d records (symbolic per-thread non-decreasing timestamps, any split into buffered/queued), ring hard limit %d, cut-off of each pass symbolic and non-decreasing, <= %d passes that move nothing, <= 8 passes' % (nc, nr, hard, stalls),
             what='real BackendWorker::_exit() over the kernel CONTRACTS (hooks): with wait_for_queues_to_empty_before_exit every record is written exactly once, in non-decreasing global timestamp order, although records newer than the cut-off are held back; the failure counters are checked and the sinks flushed after the last write; without the option the loop ends at once (still flushing)')
PK_HOOKS = SK_HOOKS + ['?' + BW + r'19_resync_rdtsc_clockEv=vh_resync', '?' + BW + r'39_try_shrink_empty_transit_event_buffersEv=vh_shrink']
def pskel(nc, nr, hard, passes, tier, timeout=280):
    q = skel('poll_skeleton_p%d' % passes, 'h_poll_skeleton', nc, nr, hard, tier, timeout)
    q.defines = list(q.defines) + ['PASSES=%d' % passes]; q.hooks = PK_HOOKS
    q.bounds = '%d thread contexts x <= %d records, ring hard limit %d, soft limit 1..4 (symbolic), %d passes of the real _poll(); cut-off of each pass symbolic and non-decreasing; between passes any producer may enqueue one more record stamped after the last cut-off' % (nc, nr, hard, passes)
    q.what = 'real BackendWorker::_poll() over the kernel CONTRACTS (hooks): whatever the cut-offs, the soft limit (single-event vs batch branch) and the producers do, the written sequence is in non-decreasing global timestamp order and no record is lost (written + buffered + queued = logged)'
    return q
QUERIES += [pskel(2, 2, 1, 3, 'quick'), pskel(2, 2, 2, 3, 'thorough', 1700), pskel(2, 3, 1, 4, 'thorough', 1700)]
QUERIES += [skel('exit_skeleton', 'h_exit_skeleton', 2, 2, 2, 'quick'), skel('exit_skeleton', 'h_exit_skeleton', 2, 2, 1, 'quick'), skel('exit_skeleton', 'h_exit_skeleton', 2, 3, 2, 'thorough', 1700)]
BOUNDS = 'one handler entry; all six handled signals; exit/poll skeletons: 2 contexts x <= 3 records, <= 8 passes'
OUTSIDE = 'NOT APPLICABLE and not claimed: kernel signal delivery, that the process then dies with that wait status, async-signal-safety, atexit/static destruction order, thread join. Backend::stop / restart around _exit (thread join, atexit). The _exit/_poll skeleton queries use the kernel contracts (decided separately: C03 K1/K3/K4), not the kernels themselves.'
ASSUMPTIONS = ['exit, signal, raise, alarm, pause, strsignal, gettid, sleep = recording stubs (rt/m_signal.c); logger lookup, the notice log_statement and flush_log = recording hooks: what flush_log guarantees is C06']
MANIFEST = {
 'text': 'Reduced scope: the solver decides the decision logic of the real built-in signal handler as a one-step state machine over all handled signals, callers and configurations: the notice is logged and the flush completes before the process is allowed to end (exit for SIGINT/SIGTERM, default disposition + re-raise of the original signal otherwise), the watchdog alarm is armed, the backend thread never logs to itself, a concurrent second entry parks. Exit-time drain: on the real BackendWorker::_exit() loop, with the kernels it calls replaced by their contracts (IR hooks; the contracts are what C03 K1/K3/K4 decide), wait_for_queues_to_empty_before_exit writes every record of every thread exactly once in global timestamp order - records newer than the ordering cut-off included - and only then checks the failure counters and flushes the sinks. Everything that is operating-system behaviour is not claimed.',
 'note': 'Environment and logging calls are recording stubs/hooks; one handler entry. Skeleton queries: abstract queue/ring state, symbolic cut-offs, bounded stalls. Trusted: clang IR, translator, CBMC.',
 'technique': 'CBMC/SAT over clang IR of the real on_signal with symbolic signal/caller/configuration and effect-recording environment stubs; real _exit/_poll loops over kernel contracts (assume/guarantee via IR hooks); native replay',
}
