# C07 — stopping, exiting or dying by a handled signal loses no completed statement (signal-handler decision logic only)
QUERIES = [
  Q('on_signal_effects', 'C07_signal.cpp', 'h_on_signal', forbid=[r'get_local_thread_context'],
    hooks=[r'^_ZN5quill2v96detail20SignalHandlerContext10get_loggerEv=vh_get_logger', r'^_ZN5quill2v910LoggerImplI2FOE13log_statementILb0ELb0EJRKPKcRiEEE=vh_log_stmt', r'^_ZN5quill2v910LoggerImplI2FOE9flush_logEj=vh_flush_log'],
    models=['m_throw.c', 'm_signal.c', 'm_env.c'], libmodels=['m_string.c', 'm_stl.c'], unwind=14, unwindset=['strlen.0:40'],
    bounds='one entry of the real detail::on_signal<FrontendOptions>: signal in {TERM,INT,ABRT,FPE,ILL,SEGV}; caller = backend thread / another thread / backend not started; logger available or not; should_reraise on/off; any timeout; first entry or a second concurrent entry',
    what='effect sequence: alarm armed with the configured timeout; on a non-backend thread with a logger the notice(s) are logged and flush_log(0) completes BEFORE exit(EXIT_SUCCESS) (INT/TERM) or before signal(SIG_DFL)+raise(original signal) (others, when re-raise is on); no logging from the backend thread itself; a second concurrent entry parks without any effect'),
  Q('on_alarm_watchdog', 'C07_signal.cpp', 'h_on_alarm', forbid=[r'get_local_thread_context'], models=['m_throw.c', 'm_signal.c', 'm_env.c'], libmodels=['m_string.c', 'm_stl.c'], unwind=14,
    bounds='real detail::on_alarm with the recorded original signal in {none, TERM, INT, ABRT, FPE, ILL, SEGV}',
    what='the watchdog restores the default disposition of and re-raises the ORIGINAL signal (SIGALRM itself when it came first); it never exits successfully'),
]
BOUNDS = 'one handler entry; all six handled signals'
OUTSIDE = 'NOT APPLICABLE and not claimed: kernel signal delivery, that the process then dies with that wait status, async-signal-safety, atexit/static destruction order, thread join, and the BackendWorker::_exit drain (backend kernels not under the memory cap). Backend::stop / restart.'
ASSUMPTIONS = ['exit, signal, raise, alarm, pause, strsignal, gettid, sleep = recording stubs (rt/m_signal.c); logger lookup, the notice log_statement and flush_log = recording hooks: what flush_log guarantees is C06']
MANIFEST = {
 'text': 'Reduced scope: the solver decides the decision logic of the real built-in signal handler as a one-step state machine over all handled signals, callers and configurations: the notice is logged and the flush completes before the process is allowed to end (exit for SIGINT/SIGTERM, default disposition + re-raise of the original signal otherwise), the watchdog alarm is armed, the backend thread never logs to itself, a concurrent second entry parks. Everything that is operating-system behaviour, and the exit-time drain of the backend, is not claimed.',
 'note': 'Environment and logging calls are recording stubs/hooks; one handler entry. Trusted: clang IR, translator, CBMC.',
 'technique': 'CBMC/SAT over clang IR of the real on_signal with symbolic signal/caller/configuration and effect-recording environment stubs; native replay',
}
